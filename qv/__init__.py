"""qv: runtime monitors for huggingface/quanto (see /verif/DESIGN.md)."""
