"""Attaching monitors to the imported repo without editing it."""

import sys


class Patches:
    """Reversible attribute patches."""

    def __init__(self):
        self._undo = []

    def set(self, obj, name, value):
        had = name in getattr(obj, "__dict__", {})
        old = getattr(obj, name, None)
        self._undo.append((obj, name, old, had))
        setattr(obj, name, value)

    def everywhere(self, orig, wrapper, root="optimum.quanto"):
        """Replace every module attribute under `root` that *is* `orig` (quanto binds names with from-imports)."""
        n = 0
        for mname, mod in list(sys.modules.items()):
            if mod is None or not (mname == root or mname.startswith(root + ".")):
                continue
            for attr, val in list(vars(mod).items()):
                if val is orig:
                    self.set(mod, attr, wrapper)
                    n += 1
        return n

    def undo(self):
        for obj, name, old, had in reversed(self._undo):
            try:
                if had:
                    setattr(obj, name, old)
                else:
                    try:
                        delattr(obj, name)
                    except AttributeError:
                        setattr(obj, name, old)
            except Exception:
                pass
        self._undo = []

    def __enter__(self):
        return self

    def __exit__(self, *a):
        self.undo()
        return False
