"""Dispatch monitor (DESIGN.md 3.1): shadow execution + invariant at the client boundary of the tensor subclasses.

Attach points (class-level, cannot be bypassed by early-bound references):
  QTensor.__torch_function__          -> shadow execution of every monitored torch function (C05) + C06 invariant
  QBytesTensor/QBitsTensor.__torch_dispatch__ -> C06 invariant on every quantized tensor an aten op returns

The monitor never raises into the program under test: its own failures are recorded as 'monitor_error'
(=> inconclusive), real exceptions of the real call are re-raised unchanged after being judged.
"""

import threading

import torch
from torch.utils import _pytree as pytree

from qv import fp, num, oracles

F64 = torch.float64

MOVE = {"view", "reshape", "flatten", "unsqueeze", "squeeze", "transpose", "t", "permute", "select", "__getitem__",
        "index_select", "expand", "expand_as", "cat", "stack", "split", "chunk", "clone", "detach", "contiguous",
        "copy_", "narrow", "unbind", "view_as", "reshape_as", "unflatten", "movedim", "swapaxes", "concat", "concatenate",
        "T", "mT", "cpu", "tensor_split", "hsplit", "vsplit", "repeat", "tile", "flip", "roll", "gather", "take",
        "masked_select", "diagonal", "tril", "triu"}
RESCALE = {"mul", "__mul__", "__rmul__", "multiply", "div", "__truediv__", "true_divide", "divide", "neg", "__neg__",
           "negative", "to", "type", "half", "float", "bfloat16", "double", "type_as", "__rtruediv__"}
REQUANT = {"softmax", "where"}
CONTRACT = {"mm", "bmm", "matmul", "__matmul__", "__rmatmul__", "linear", "conv2d", "_conv_forward", "einsum", "addmm",
            "baddbmm", "dot", "mv", "inner"}
PASS = {"add", "__add__", "__radd__", "sub", "__sub__", "__rsub__", "subtract", "sigmoid", "gelu", "silu", "tanh", "exp",
        "sum", "mean", "amax", "amin", "abs", "__abs__", "layer_norm", "log_softmax", "cross_entropy", "cosine_similarity",
        "topk", "pad", "eq", "__eq__", "gt", "__gt__", "lt", "__lt__", "le", "__le__", "ge", "__ge__", "ne", "__ne__",
        "relu", "relu_", "max", "min", "clamp", "sqrt", "square", "pow", "__pow__", "norm", "var", "std", "argmax",
        "argmin", "sort", "equal", "allclose", "isfinite", "isnan", "numel", "log", "sin", "cos", "erf", "hardtanh",
        "leaky_relu", "elu", "dropout", "maximum", "minimum", "cumsum", "prod", "any", "all", "sign", "floor", "ceil",
        "round", "mse_loss", "l1_loss", "softplus", "hardswish", "hardsigmoid", "mish", "logsumexp", "group_norm",
        "batch_norm", "instance_norm", "normalize", "avg_pool2d", "max_pool2d", "adaptive_avg_pool2d", "interpolate",
        "embedding", "nll_loss", "binary_cross_entropy_with_logits", "kl_div", "rms_norm", "scaled_dot_product_attention"}
# in-place arithmetic: the float program changes its first operand, so what is judged is that operand afterwards
INPLACE_ARITH = {"mul_", "div_", "add_", "sub_", "neg_", "clamp_", "zero_", "fill_", "masked_fill_", "__imul__",
                 "__itruediv__", "__iadd__", "__isub__", "__setitem__", "index_copy_", "index_fill_", "abs_", "exp_",
                 "sigmoid_", "tanh_", "clamp_min_", "clamp_max_", "addcmul_", "hardtanh_"}
MONITORED = MOVE | RESCALE | REQUANT | CONTRACT | PASS | INPLACE_ARITH
INPLACE = {"copy_", "relu_"} | INPLACE_ARITH
MOVES_COPIES = {"clone", "detach", "contiguous", "to", "cpu", "copy_", "type", "half", "float", "bfloat16"}


def _inplace_flag(func, args, kwargs):
    """True for functional forms called with inplace=True (relu, hardtanh, dropout, ...)."""
    if kwargs.get("inplace") is True:
        return True
    if len(args) < 2 or not any(a is True for a in args[1:]):
        return False
    try:
        import inspect

        return inspect.signature(func).bind(*args, **kwargs).arguments.get("inplace") is True
    except Exception:
        return False


_DT_METHODS = {"half": torch.float16, "float": torch.float32, "bfloat16": torch.bfloat16, "double": torch.float64}


def _requests_other_dtype(name, args, kwargs):
    """True when a dtype-move call asks for a dtype different from its (first) quantized operand's."""
    src = next((a for a in args if is_q(a)), None)
    if src is None:
        return False
    want = None
    if name in _DT_METHODS:
        want = _DT_METHODS[name]
    elif name in ("to", "type"):
        for a in list(args[1:]) + list(kwargs.values()):
            if isinstance(a, torch.dtype):
                want = a
            elif isinstance(a, torch.Tensor) and want is None and name == "to":
                want = a.dtype
    elif name == "type_as" and len(args) > 1 and isinstance(args[1], torch.Tensor):
        want = args[1].dtype
    return want is not None and want != src.dtype


def fname(func):
    n = getattr(func, "__name__", None)
    if n is None:
        n = str(func)
    return n


def is_q(x):
    return isinstance(x, torch.Tensor) and hasattr(x, "dequantize") and hasattr(x, "qtype")


def kind_of(x):
    """Operand kind for signatures: mechanism level, not value level."""
    if is_q(x):
        x = fp.unwrap_param(x)
        cls = type(x).__name__
        qt = getattr(x.qtype, "name", "?")
        fam = "float8" if "float8" in qt else qt.replace("q", "")
        ax = "pt" if x.axis is None else "pa"
        if cls == "QBytesTensor":
            return f"qbytes:{ax}:{fam}"
        return f"qbits:{fam}"
    if isinstance(x, torch.Tensor):
        return "plain0d" if x.ndim == 0 else ("plainbool" if x.dtype == torch.bool else "plain")
    if isinstance(x, bool):
        return "bool"
    if isinstance(x, (int, float)):
        return "scalar"
    if isinstance(x, (list, tuple)) and any(isinstance(e, torch.Tensor) for e in x):
        return "[" + ",".join(kind_of(e) for e in x[:4]) + ("" if len(x) <= 4 else ",..") + "]"
    return None


def describe(t):
    """Compact witness description of an operand (no values)."""
    try:
        if is_q(t):
            t = fp.unwrap_param(t)
            inn, meta = fp.inner(t)
            d = {"cls": type(t).__name__, "shape": list(t.shape), "stride": list(t.stride()), "dtype": str(t.dtype),
                 "qtype": t.qtype.name, "axis": t.axis}
            for k, v in inn.items():
                vv = oracles.plain(v) if not fp.is_wrapper(v) else v
                d[k] = {"shape": list(vv.shape), "stride": list(vv.stride()), "dtype": str(vv.dtype)}
                if k == "_scale":
                    sv = oracles.plain(v).to(F64)
                    d[k]["min"], d[k]["max"] = float(sv.min()), float(sv.max())
            if hasattr(t, "_group_size"):
                d["group_size"] = t._group_size
            return d
        return {"cls": "Tensor", "shape": list(t.shape), "stride": list(t.stride()), "dtype": str(t.dtype)}
    except Exception as e:
        return {"describe_failed": type(e).__name__}


def coarse(okinds):
    """Mechanism-level operand signature: classes in order, families as a set."""
    import re

    classes, fams = [], set()
    for k in okinds:
        for m in re.finditer(r"(qbytes:p[ta]|qbits):([a-z0-9]+)", k):
            fams.add(m.group(2))
        c = re.sub(r"(qbytes:p[ta]|qbits):[a-z0-9]+", r"\1", k)
        if c.startswith("["):
            inner = sorted(set(c.strip("[]").replace("..", "").split(",")) - {""})
            c = "[" + ",".join(inner) + "]"
        if not classes or classes[-1] != c:
            classes.append(c)
    return ",".join(classes)[:100] + "|" + "+".join(sorted(fams))


def shadow_of(t):
    """Detached float tensor holding dequantize() with the operand's reported size and strides."""
    t = fp.unwrap_param(t)
    d = oracles.plain(t.dequantize())
    size, stride = tuple(t.size()), tuple(t.stride())
    if tuple(d.shape) != size:
        # stale/incorrect reported size: the faithful shadow is the dequantized value itself
        return d.clone()
    try:
        if any(st == 0 and sz > 1 for sz, st in zip(size, stride)):
            base = d
            for dim, (sz, st) in enumerate(zip(size, stride)):
                if st == 0 and sz > 1:
                    base = base.narrow(dim, 0, 1)
            return base.contiguous().expand(size)
        if tuple(d.stride()) == stride:
            return d.clone(memory_format=torch.preserve_format)
        s = torch.empty_strided(size, stride, dtype=d.dtype)
        s.copy_(d)
        return s
    except Exception:
        return d.clone()


class Monitor:
    def __init__(self, ctx, judge_c05=True, judge_c06=True, prefix=""):
        self.ctx = ctx
        self.judge_c05 = judge_c05
        self.judge_c06 = judge_c06
        self.local = threading.local()
        self.installed = False
        self.tainted_ids = set()
        self._keep = []  # keep tainted objects alive so that ids stay unique
        self.prefix = prefix
        self.step_info = None  # set by workloads: dict merged into witnesses
        self._inplace_now = False
        self._dest_pre, self._rest, self._rest_pre, self._dest_before = None, [], [], None

    # -- install / uninstall ------------------------------------------------------------------
    def install(self):
        import optimum.quanto as oq
        from optimum.quanto.tensor.qbits import QBitsTensor
        from optimum.quanto.tensor.qbytes import QBytesTensor
        from optimum.quanto.tensor.qtensor import QTensor

        self.QTensor, self.QBytesTensor, self.QBitsTensor = QTensor, QBytesTensor, QBitsTensor
        self._orig_tf = QTensor.__dict__["__torch_function__"]
        orig_tf = self._orig_tf.__func__
        mon = self

        def tf(cls, func, types, args=(), kwargs=None):
            return mon._torch_function(orig_tf, cls, func, types, args, kwargs)

        QTensor.__torch_function__ = classmethod(tf)
        self._orig_td = {}
        for klass in (QBytesTensor, QBitsTensor):
            o = klass.__dict__["__torch_dispatch__"]
            self._orig_td[klass] = o

            def make(of):
                def td(cls, op, types, args=(), kwargs=None):
                    return mon._torch_dispatch(of, cls, op, types, args, kwargs)

                return td

            klass.__torch_dispatch__ = classmethod(make(o.__func__))
        self.installed = True

    def uninstall(self):
        if not self.installed:
            return
        self.QTensor.__torch_function__ = self._orig_tf
        for klass, o in self._orig_td.items():
            klass.__torch_dispatch__ = o
        self.installed = False

    def __enter__(self):
        self.install()
        return self

    def __exit__(self, *a):
        self.uninstall()
        return False

    # -- helpers --------------------------------------------------------------------------------
    def _busy(self):
        return getattr(self.local, "busy", False)

    def is_tainted(self, obj):
        return id(obj) in self.tainted_ids

    def taint(self, obj):
        for leaf in pytree.tree_leaves(obj):
            if isinstance(leaf, torch.Tensor):
                self.tainted_ids.add(id(leaf))
                self._keep.append(leaf)

    def _report(self, prop, sig, detail):
        ctx = self.ctx
        if prop == "C06" and self.judge_c06 == "taint":
            ctx.count("c06_failures_used_for_taint_only")
            if "dequantize_raises" not in str(sig.get("kind", "")):
                return
            # a result that cannot be dequantized equals nothing: that is C05's business too, not only C06's
            prop, sig = "C05", dict(sig, kind="result_cannot_be_dequantized")
        sig = dict(sig)
        sig["prop"] = prop
        if self.step_info:
            detail = dict(detail, step=self.step_info)
        if getattr(self, "_cur_operands", None) is not None:
            detail = dict(detail, operands_desc=self._cur_operands)
        ctx.violation(sig, detail)

    # -- __torch_dispatch__: C06 invariant on every quantized tensor an aten op returns -----------
    def _torch_dispatch(self, orig, cls, op, types, args, kwargs):
        out = orig(cls, op, types, args, kwargs or {})
        if self._busy() or not self.judge_c06:
            return out
        if torch.compiler.is_compiling():
            return out
        self.local.busy = True
        try:
            opname = str(getattr(op, "overloadpacket", op)).replace("aten.", "")
            for leaf in pytree.tree_leaves(out):
                if is_q(leaf) and id(leaf) not in self.tainted_ids:
                    if any(isinstance(a, torch.Tensor) and (a.is_meta or type(a).__name__ == "FakeTensor")
                           for a in pytree.tree_leaves((args, kwargs))):
                        self.ctx.count("skipped:tracing")
                        continue
                    self.ctx.count("c06_checked_at_dispatch")
                    self.ctx.see("aten_ops", opname)
                    fails = oracles.check_meta(leaf)
                    if fails:
                        self.taint(leaf)
                        for f in fails:
                            self._report("C06", dict(kind="meta:" + f["kind"], op="aten." + opname,
                                                     operand=kind_of(leaf) or "?"), dict(fail=f, level="dispatch"))
        except Exception as e:
            self.ctx.count("monitor_error")
            self.ctx.see("monitor_errors", f"dispatch:{type(e).__name__}:{str(e)[:80]}")
        finally:
            self.local.busy = False
        return out

    # -- __torch_function__: shadow execution ------------------------------------------------------
    def _torch_function(self, orig, cls, func, types, args, kwargs):
        kwargs = kwargs or {}
        name = fname(func)
        if self._busy() or name not in MONITORED or torch.compiler.is_compiling():
            if not self._busy() and name not in MONITORED:
                self.ctx.count("unmonitored_calls")
                self.ctx.see("unmonitored", name, cap=300)
            return orig(cls, func, types, args, kwargs)
        leaves = pytree.tree_leaves((args, kwargs))
        if any(isinstance(a, torch.Tensor) and (a.is_meta or type(a).__name__ == "FakeTensor") for a in leaves):
            self.ctx.count("skipped:tracing")
            return orig(cls, func, types, args, kwargs)
        if any(isinstance(a, torch.Tensor) and id(a) in self.tainted_ids for a in leaves):
            self.ctx.count("skipped:tainted_operand")
            return orig(cls, func, types, args, kwargs)
        depth = getattr(self.local, "depth", 0)
        # ---- phase 1: fingerprints + shadow execution (monitor busy)
        self.local.busy = True
        shadow_out, shadow_exc, pre_fp, okinds, sh_args, sh_kwargs = None, None, None, None, None, None
        inpl = (None, [], [], None)
        inplace = name in INPLACE or _inplace_flag(func, args, kwargs)
        try:
            okinds = [k for k in (kind_of(a) for a in list(args) + list(kwargs.values())) if k]
            qleaves = [a for a in leaves if is_q(a)]
            pre_fp = [fp.tensor_fp(a) for a in leaves if isinstance(a, torch.Tensor)] if not inplace else None
            if inplace and args and isinstance(args[0], torch.Tensor):
                rest = [a for a in leaves[1:] if isinstance(a, torch.Tensor) and a is not args[0]]
                # a pristine copy of a float destination, in its own layout, for the second (raw layout) shadow
                before = args[0].detach().clone() if not is_q(args[0]) else None
                inpl = (fp.tensor_fp(args[0]), rest, [fp.tensor_fp(a) for a in rest], before)
            with torch.no_grad():
                sh_args, sh_kwargs = pytree.tree_map(lambda x: shadow_of(x) if is_q(x) else (
                    x.detach().clone() if isinstance(x, torch.Tensor) and inplace else
                    (x.detach() if isinstance(x, torch.Tensor) else x)), (args, kwargs))
                try:
                    with torch._C.DisableTorchFunctionSubclass():
                        shadow_out = func(*sh_args, **sh_kwargs)
                        if inplace:
                            shadow_out = sh_args[0]
                except Exception as e:
                    shadow_exc = e
        except Exception as e:
            self.ctx.count("monitor_error")
            self.ctx.see("monitor_errors", f"shadow:{name}:{type(e).__name__}:{str(e)[:80]}")
            self.local.busy = False
            return orig(cls, func, types, args, kwargs)
        finally:
            self.local.busy = False
        # ---- phase 2: the real call (nested monitored calls are judged too, one level deeper)
        self.local.depth = depth + 1
        real_exc, out = None, None
        try:
            out = orig(cls, func, types, args, kwargs)
        except Exception as e:
            real_exc = e
        finally:
            self.local.depth = depth
        # ---- phase 3: judgement
        self.local.busy = True
        try:
            self._dest_pre, self._rest, self._rest_pre, self._dest_before = inpl
            self._inplace_now = inplace
            self._judge(name, func, args, kwargs, leaves, okinds, pre_fp, sh_args, sh_kwargs, shadow_out, shadow_exc, out,
                        real_exc, depth)
        except Exception as e:
            import traceback

            self.ctx.count("monitor_error")
            self.ctx.see("monitor_errors", f"judge:{name}:{type(e).__name__}:{str(e)[:80]}:"
                         + traceback.format_exc().splitlines()[-3].strip()[:80])
        finally:
            self.local.busy = False
        if real_exc is not None:
            raise real_exc
        return out

    def _judge(self, name, func, args, kwargs, leaves, okinds, pre_fp, sh_args, sh_kwargs, shadow_out, shadow_exc, out,
               real_exc, depth):
        ctx = self.ctx
        ksig = coarse(okinds)
        self._cur_call = (func, args, kwargs)
        self._cur_operands = [describe(a) for a in leaves if isinstance(a, torch.Tensor)][:4]
        ctx.count("monitored_calls")
        ctx.see("functions", name, cap=400)
        if shadow_exc is not None:
            ctx.count("float_invalid_steps")
            return  # float program invalid at this step: not judged
        if real_exc is not None:
            # documented refusals
            if isinstance(real_exc, ValueError) and any(k.startswith("qbits") for k in okinds) and \
                    _requests_other_dtype(name, args, kwargs):
                # documented: the dtype of a packed low-bit tensor cannot be changed (a move that keeps the dtype, or any
                # other operation, is not covered by that refusal)
                ctx.count("documented_refusals")
                return
            if isinstance(real_exc, NotImplementedError) and name == "where" and is_q(args[0] if args else None):
                ctx.count("documented_refusals")
                return
            if self.judge_c05:
                msg = str(real_exc).splitlines()[0][:60] if str(real_exc) else ""
                import re

                msg = re.sub(r"[0-9]+", "N", msg)
                self._report("C05", dict(kind="raises", func=name, exc=type(real_exc).__name__, msg=msg, operands=ksig),
                             dict(depth=depth, full_msg=str(real_exc)[:300]))
            return
        ctx.count("judged_steps")
        if depth:
            ctx.count("judged_nested_steps")
        # operand mutation by non in-place ops
        if pre_fp is not None and self.judge_c05:
            post = [fp.tensor_fp(a) for a in leaves if isinstance(a, torch.Tensor)]
            if post != pre_fp:
                self._report("C05", dict(kind="operand_mutated", func=name, operands=ksig), dict(depth=depth))
        if self._inplace_now and self.judge_c05 and getattr(self, "_dest_pre", None) is not None:
            if [fp.tensor_fp(a) for a in self._rest] != self._rest_pre:
                self._report("C05", dict(kind="operand_mutated", func=name, operands=ksig), dict(depth=depth, inplace=True))
        real_out = args[0] if self._inplace_now else out
        r_leaves = pytree.tree_leaves(real_out)
        s_leaves = pytree.tree_leaves(shadow_out)
        any_q_out = any(is_q(x) for x in r_leaves)
        if any_q_out:
            ctx.count("steps_with_quantized_result")
        if len(r_leaves) != len(s_leaves):
            if self.judge_c05:
                self._report("C05", dict(kind="output_structure", func=name, operands=ksig),
                             dict(real=len(r_leaves), shadow=len(s_leaves)))
            return
        failed = False
        for i, (r, s) in enumerate(zip(r_leaves, s_leaves)):
            if is_q(r) and self.judge_c06 and id(r) not in self.tainted_ids:
                ctx.count("c06_checked_at_function")
                fails = oracles.check_meta(r)
                for f in fails:
                    self._report("C06", dict(kind="meta:" + f["kind"], op=name, operand=kind_of(r) or "?"),
                                 dict(fail=f, level="function", operands=ksig))
                if fails:
                    failed = True
                    continue
                if name in MOVES_COPIES:
                    self._judge_move(name, args, kwargs, r, ksig)
            if not self.judge_c05:
                continue
            if isinstance(s, torch.Tensor) != isinstance(r, torch.Tensor):
                if not isinstance(s, torch.Tensor) and not isinstance(r, torch.Tensor):
                    pass
                else:
                    self._report("C05", dict(kind="output_type", func=name, operands=ksig), dict(index=i))
                    failed = True
                continue
            if not isinstance(s, torch.Tensor):
                if r != s and not (isinstance(r, float) and r != r and s != s):
                    self._report("C05", dict(kind="python_value_differs", func=name, operands=ksig),
                                 dict(real=r, shadow=s))
                    failed = True
                continue
            rv = oracles.plain(r.dequantize()) if is_q(r) else oracles.plain(r)
            if tuple(rv.shape) != tuple(s.shape) or (is_q(r) and tuple(r.shape) != tuple(s.shape)):
                self._report("C05", dict(kind="shape_differs", func=name, operands=ksig),
                             dict(real=list(rv.shape), reported=list(r.shape), shadow=list(s.shape), index=i))
                failed = True
                continue
            if rv.dtype != s.dtype:
                self._report("C05", dict(kind="dtype_differs", func=name, operands=ksig),
                             dict(real=str(rv.dtype), shadow=str(s.dtype)))
                failed = True
                continue
            bad = self._compare(name, args, kwargs, sh_args, sh_kwargs, r, rv, s, ksig, i)
            if bad:
                failed = True
        if failed:
            self.taint(real_out)

    # -- comparison by class of operation ------------------------------------------------------------
    def _raw_shadow(self, name, func_args, index):
        """Result of the same function on the literal dequantize() of every quantized operand (own layout)."""
        func, args, kwargs = func_args
        with torch.no_grad():
            a2, k2 = pytree.tree_map(lambda x: oracles.plain(fp.unwrap_param(x).dequantize()).clone() if is_q(x) else (
                x.detach().clone() if isinstance(x, torch.Tensor) and self._inplace_now else
                (x.detach() if isinstance(x, torch.Tensor) else x)), (args, kwargs))
            if self._inplace_now:
                if is_q(args[0]):
                    return None  # the destination was (or should have been) rewritten: there is no pristine raw operand
                if self._dest_before is None:
                    return None
                a2 = [self._dest_before.clone()] + list(a2[1:])
            with torch._C.DisableTorchFunctionSubclass():
                out = func(*a2, **k2)
                if self._inplace_now:
                    out = a2[0]
        return pytree.tree_leaves(out)[index]

    def _compare(self, name, args, kwargs, sh_args, sh_kwargs, r, rv, s, ksig, index=0):
        ctx = self.ctx
        if not (rv.is_floating_point() and s.is_floating_point()):
            same = torch.equal(rv, s)
            if not same:
                self._report("C05", dict(kind="exact_result_differs", func=name, operands=ksig,
                                         mechanism=self._mechanism(name, "exact", args, r, torch.float32, None, None, None)),
                             dict(n=int((rv != s).sum()), dtype=str(rv.dtype)))
            return not same
        wd = rv.dtype
        A, B = rv.to(F64), s.to(F64)
        nan_both = torch.isnan(A) & torch.isnan(B)
        diff = torch.where(nan_both, torch.zeros_like(A), (A - B).abs())
        diff = torch.where(torch.isinf(A) & (A == B), torch.zeros_like(diff), diff)
        big = torch.maximum(A.abs(), B.abs()).nan_to_num(0, 0, 0)
        if name in CONTRACT:
            cls_, tol = "contraction", self._contract_tol(name, sh_args, sh_kwargs, wd, B)
            if tol is None:
                cls_, tol = "pass", 8 * num.ulp(big, wd)
            else:
                # the reference of a contraction is the float64 product of the dequantized operands
                ref64 = tol[1]
                diff = (A - ref64).abs()
                diff = torch.where(torch.isnan(A) & torch.isnan(ref64), torch.zeros_like(diff), diff)
                tol = tol[0]
                # not finite although the reference is representable
                over = ~torch.isfinite(A) & (ref64.abs() <= 0.98 * num.fmax(wd))
                if over.any():
                    self._report("C05", dict(kind="nonfinite_result_for_representable_reference", func=name,
                                             operands=ksig), oracles._first(over, ref=ref64))
                    return True
                diff = torch.where(~torch.isfinite(ref64) | (ref64.abs() > 0.98 * num.fmax(wd)),
                                   torch.zeros_like(diff), diff)
        elif is_q(r) and ((self._inplace_now and name != "copy_") or self._requantized(name, args, r)):
            cls_ = "requant"
            rr = fp.unwrap_param(r)
            sc = oracles.plain(fp.inner(rr)[0]["_scale"]).to(F64)
            if sc.numel() != 1:
                try:
                    sc = sc.expand_as(A) if sc.ndim == A.ndim else torch.broadcast_to(sc, A.shape)
                except RuntimeError:
                    sc = sc.abs().max()  # grouped low-bit scales: the coarsest group step bounds every element's step
            fam = getattr(rr.qtype, "dtype", torch.int8)
            if fam in (torch.float8_e4m3fn, torch.float8_e5m2):
                step = sc.abs() * num.ulp(B / sc, fam)
            else:
                step = sc.abs() * torch.ones_like(B)
            tol = step + 4 * num.ulp(big, wd)
        elif name in MOVE and not self._dtype_changes(name, args, kwargs):
            cls_, tol = "move", torch.zeros_like(A)
        elif name in RESCALE:
            src_dt = next((a.dtype for a in pytree.tree_leaves(args) if is_q(a)), wd)
            if src_dt == wd and name in ("to", "type", "type_as", "half", "float", "bfloat16", "double"):
                cls_, tol = "move", torch.zeros_like(A)  # no dtype change: a pure move
            else:
                # a dtype move is judged in the coarser of the two dtypes (the shadow was rounded in the source dtype);
                # which one is coarser depends on the magnitude: below float16's normal range its spacing is absolute and
                # exceeds bfloat16's
                cls_, tol = "rescale", 4 * torch.maximum(num.ulp(big, wd), num.ulp(big, src_dt)) + 4 * num.ulp(big, wd)
        else:
            cls_, tol = "pass", 8 * num.ulp(big, wd)
        ctx.count("compared:" + cls_)
        bad = ~(diff <= tol)
        fin = torch.isfinite(diff) & (tol > 0)
        if fin.any():
            ctx.maxstat("diff/tol:" + cls_, float((diff[fin] / tol[fin]).max()))
        if bad.any() and cls_ in ("pass", "move", "rescale") and getattr(self, "_cur_call", None) is not None:
            # Kernels may differ by a few ulp (or by summation order) between memory layouts: the literal reading of
            # the property is the function applied to dequantize() in its own layout. Accept if that one agrees.
            try:
                s2 = self._raw_shadow(name, self._cur_call, index)
                if isinstance(s2, torch.Tensor) and s2.shape == rv.shape and s2.dtype == rv.dtype:
                    B2 = s2.to(F64)
                    d2 = torch.where(torch.isnan(A) & torch.isnan(B2), torch.zeros_like(A), (A - B2).abs())
                    d2 = torch.where(torch.isinf(A) & (A == B2), torch.zeros_like(d2), d2)
                    if bool((d2 <= tol).all()):
                        ctx.count("accepted_on_raw_layout_shadow")
                        return False
            except Exception:
                pass
        if bad.any():
            w = oracles._first(bad, real=A, shadow=B, diff=diff, tol=tol)
            self._report("C05", dict(kind="value_differs:" + cls_, func=name, operands=ksig,
                                     mechanism=self._mechanism(name, cls_, args, r, wd, A, B, bad)), w)
            return True
        return False

    def _mechanism(self, name, cls_, args, r, wd, A, B, bad):
        """Arithmetic relation that characterises a value mismatch (used by known-finding matchers)."""
        try:
            sn = num.smallest_normal(wd)
            qs = [fp.unwrap_param(a) for a in pytree.tree_leaves(args) if is_q(a)]
            if self._inplace_now and name != "copy_" and is_q(r) and getattr(self, "_dest_pre", None) == fp.tensor_fp(r):
                return "quantized_destination_left_unchanged"
            if name == "__setitem__" and is_q(r) and len(qs) >= 2 and type(qs[0]).__name__ == "QBytesTensor":
                # the assigned slice was copied together with its scale, which the slice shares with the whole tensor
                vals = [q for q in qs[1:] if type(q).__name__ == "QBytesTensor"]
                rsc = oracles.plain(fp.inner(fp.unwrap_param(r))[0]["_scale"])
                if vals and rsc.numel() == 1 and any(
                        fp.plain_bytes(oracles.plain(fp.inner(v)[0]["_scale"]).to(rsc.dtype).reshape(rsc.shape)) == fp.plain_bytes(rsc)
                        for v in vals if fp.inner(v)[0]["_scale"].numel() == 1) and self._dest_pre != fp.tensor_fp(r):
                    return "slice_assignment_overwrites_shared_scale"
            if is_q(r):
                rs = oracles.plain(fp.inner(fp.unwrap_param(r))[0]["_scale"]).to(F64).abs()
                if bool((rs < sn).any()):
                    return "result_scale_subnormal"
            if cls_ == "contraction" and len(qs) >= 2:
                s0 = oracles.plain(fp.inner(qs[0])[0]["_scale"]).to(F64).abs().max()
                s1 = oracles.plain(fp.inner(qs[1])[0]["_scale"]).to(F64).abs()
                if float(s0 * s1.min()) < sn:
                    return "scale_product_subnormal"
            if name in ("neg", "__neg__", "negative") and qs:
                codes = oracles.plain(fp.inner(qs[0])[0]["_data"])
                if codes.dtype == torch.int8 and bool((codes == -128).any()) and bool((A[bad] == -B[bad]).all()):
                    return "int8_code_-128_wraps"
            if qs and any(bool((oracles.plain(fp.inner(q)[0]["_scale"]) < 0).any()) for q in qs
                          if type(q).__name__ == "QBytesTensor"):
                return "negative_scale"
        except Exception:
            pass
        return "other"

    def _dtype_changes(self, name, args, kwargs):
        return False

    def _requantized(self, name, args, r):
        """True when the result is quantized with a scale that is not (a view/cast of) an operand's scale."""
        if name in REQUANT:
            return True
        rs = oracles.plain(fp.inner(fp.unwrap_param(r))[0]["_scale"])
        for a in pytree.tree_leaves(args):
            if is_q(a):
                s = oracles.plain(fp.inner(fp.unwrap_param(a))[0]["_scale"])
                if s.numel() == rs.numel() and torch.equal(s.reshape(-1).to(F64), rs.reshape(-1).to(F64)):
                    return False
        # the scale changed: rescaling ops legitimately change it (handled by their own class)
        return name not in RESCALE and name not in MOVE

    def _contract_tol(self, name, sh_args, sh_kwargs, wd, shadow):
        """(tolerance, float64 reference) of a contraction from the shadow operands, or None if unknown form."""
        try:
            with torch._C.DisableTorchFunctionSubclass():
                to64 = lambda x: x.to(F64) if isinstance(x, torch.Tensor) and x.is_floating_point() else x  # noqa
                a64, k64 = pytree.tree_map(to64, (sh_args, sh_kwargs))
                ab = lambda x: x.abs() if isinstance(x, torch.Tensor) and x.is_floating_point() else x  # noqa
                aabs, kabs = pytree.tree_map(ab, (a64, k64))
                if name in ("mm", "bmm", "matmul", "__matmul__", "__rmatmul__", "dot", "mv", "inner"):
                    x, w = a64[0], a64[1]
                    if name == "__rmatmul__":
                        x, w = w, x
                    ref = torch.matmul(x, w) if name != "inner" else torch.inner(x, w)
                    absdot = torch.matmul(x.abs(), w.abs()) if name != "inner" else torch.inner(x.abs(), w.abs())
                    K = x.shape[-1]
                    bias_abs = 0.0
                elif name == "linear":
                    # operands may be spelled by keyword: linear(input, weight, bias=None)
                    x = a64[0] if len(a64) > 0 else k64["input"]
                    w = a64[1] if len(a64) > 1 else k64["weight"]
                    b = a64[2] if len(a64) > 2 else k64.get("bias")
                    ref = torch.nn.functional.linear(x, w, b)
                    absdot = torch.nn.functional.linear(x.abs(), w.abs())
                    K = x.shape[-1]
                    bias_abs = b.abs() if b is not None else 0.0
                elif name == "conv2d":
                    import inspect

                    ref = torch.conv2d(*a64, **k64)
                    aa = list(aabs)
                    kk = dict(kabs)
                    b = aa[2] if len(aa) > 2 else kk.get("bias")
                    if len(aa) > 2:
                        aa[2] = None
                    if "bias" in kk:
                        kk["bias"] = None
                    absdot = torch.conv2d(*aa, **kk)
                    w = a64[1]
                    K = w[0].numel()
                    bias_abs = b.abs().reshape(1, -1, 1, 1) if b is not None else 0.0
                else:
                    return None
                # + rounding of the dequantized operands themselves in the working dtype (the quantized kernels use
                # the unrounded scale*code products): 2*eps(wd) per term of the dot product
                tol = num.dot_bound(ref, absdot, bias_abs, K, wd) + 2 * num.eps(wd) * absdot
                # ... and, below the working dtype's normal range, that rounding is absolute (half a subnormal step per
                # dequantized element: code 2**-4 times a float16 scale of 2e-5 is off by 2 %), while the kernels
                # multiply the codes by unrounded float32 scales
                try:
                    half_sub = 0.5 * num.smallest_subnormal(wd)
                    if name == "conv2d":
                        ones = [torch.ones_like(aa[0]), torch.ones_like(aa[1])]
                        sub = torch.conv2d(ones[0], aa[1], *aa[2:], **kk) + torch.conv2d(aa[0], ones[1], *aa[2:], **kk)
                    elif name == "linear":
                        sub = torch.nn.functional.linear(torch.ones_like(x), w.abs()) + torch.nn.functional.linear(x.abs(), torch.ones_like(w))
                    elif name == "inner":
                        sub = torch.inner(torch.ones_like(x), w.abs()) + torch.inner(x.abs(), torch.ones_like(w))
                    else:
                        sub = torch.matmul(torch.ones_like(x), w.abs()) + torch.matmul(x.abs(), torch.ones_like(w))
                    tol = tol + half_sub * sub
                except Exception:
                    pass
                return tol, ref
        except Exception:
            return None

    # -- C06: moves and copies never alter codes; a dtype move changes only the dtype of the scale ----
    def _judge_move(self, name, args, kwargs, r, ksig):
        src = None
        if name == "copy_":
            src = args[1] if len(args) > 1 else kwargs.get("src")
        else:
            src = args[0] if args else None
        if not (is_q(src) and is_q(r)):
            return
        src, r = fp.unwrap_param(src), fp.unwrap_param(r)
        if type(src) is not type(r):
            return
        self.ctx.count("c06_move_checks")
        li, _ = fp.inner(src)
        lo, _ = fp.inner(r)

        def codes(d):
            if fp.is_wrapper(d):
                return oracles.plain(d.unpack())
            return oracles.plain(d)

        ci, co = codes(li["_data"]), codes(lo["_data"])
        same_codes = ci.shape == co.shape and torch.equal(ci.reshape(-1).view(torch.uint8) if ci.is_contiguous() else
                                                          ci.contiguous().reshape(-1).view(torch.uint8),
                                                          co.reshape(-1).view(torch.uint8) if co.is_contiguous() else
                                                          co.contiguous().reshape(-1).view(torch.uint8))
        if not same_codes:
            self._report("C06", dict(kind="move_alters_codes", op=name, operand=kind_of(src) or "?"), dict(operands=ksig))
        si, so = oracles.plain(li["_scale"]), oracles.plain(lo["_scale"])
        want = si.to(so.dtype)
        if want.shape != so.shape or fp.plain_bytes(want) != fp.plain_bytes(so):
            self._report("C06", dict(kind="move_alters_scale", op=name, operand=kind_of(src) or "?"),
                         dict(operands=ksig, src_dtype=str(si.dtype), dst_dtype=str(so.dtype)))
        if "_zeropoint" in li and "_zeropoint" in lo:
            if fp.plain_bytes(oracles.plain(li["_zeropoint"])) != fp.plain_bytes(oracles.plain(lo["_zeropoint"])):
                self._report("C06", dict(kind="move_alters_zeropoint", op=name, operand=kind_of(src) or "?"),
                             dict(operands=ksig))
