"""Bit-exact fingerprints and inner-tensor access (through __tensor_flatten__, the observation point of C06)."""

import hashlib

import torch


def plain_bytes(t):
    with torch._C.DisableTorchFunctionSubclass():
        t = t.detach()
        if t.device.type != "cpu":
            t = t.cpu()
        if t.numel() == 0:
            return b""
        flat = t.contiguous().reshape(-1)
        if flat.stride(0) != 1:  # size-1 dims may keep arbitrary strides
            flat = flat.clone(memory_format=torch.contiguous_format)
        return flat.view(torch.uint8).numpy().tobytes()


def is_wrapper(t):
    return isinstance(t, torch.Tensor) and type(t) is not torch.Tensor and type(t) is not torch.nn.Parameter \
        and hasattr(t, "__tensor_flatten__")


def unwrap_param(t):
    """nn.Parameter wrapping a tensor subclass keeps the subclass in .data"""
    if isinstance(t, torch.nn.Parameter) and hasattr(t.data, "__tensor_flatten__") and type(t.data) is not torch.Tensor:
        return t.data
    return t


def inner(t):
    """Returns (dict name -> inner tensor, meta dict) of a wrapper subclass."""
    names, meta = t.__tensor_flatten__()
    return {n: getattr(t, n) for n in names}, dict(meta)


def leaves(t, prefix=""):
    """Flatten a (possibly nested) wrapper tensor to {path: plain tensor} and {path: meta string}."""
    out, metas = {}, {}
    if not is_wrapper(t):
        out[prefix.rstrip(".") or "self"] = t
        return out, metas
    inn, meta = inner(t)
    for k, v in meta.items():
        metas[prefix + k] = str(v)
    for n, it in inn.items():
        if is_wrapper(it):
            o2, m2 = leaves(it, prefix + n + ".")
            out.update(o2)
            metas.update(m2)
        else:
            out[prefix + n] = it
    return out, metas


def tensor_fp(t, ignore_meta=()):
    """Fingerprint of any tensor (wrapper or plain): type, shape, dtype, strides are NOT included for plain data
    equality; bytes of all leaves + metas are (minus the meta keys whose last component is in ignore_meta)."""
    t = unwrap_param(t)
    h = hashlib.sha256()
    if is_wrapper(t):
        lv, metas = leaves(t)
        h.update(type(t).__name__.encode())
        for k in sorted(lv):
            h.update(k.encode())
            h.update(str(lv[k].dtype).encode())
            h.update(str(tuple(lv[k].shape)).encode())
            h.update(plain_bytes(lv[k]))
        for k in sorted(metas):
            if k.rsplit(".", 1)[-1] in ignore_meta:
                continue
            h.update((k + "=" + metas[k]).encode())
    else:
        h.update(str(t.dtype).encode())
        h.update(str(tuple(t.shape)).encode())
        h.update(plain_bytes(t))
    return h.hexdigest()[:24]


def state_fp(module, ignore_meta=()):
    """Fingerprint of every parameter, buffer and quantization attribute of a module tree."""
    out = {}
    for name, p in module.named_parameters():
        out["P:" + name] = tensor_fp(p, ignore_meta)
    for name, b in module.named_buffers():
        out["B:" + name] = tensor_fp(b, ignore_meta)
    for name, m in module.named_modules():
        for attr in ("weight_qtype", "activation_qtype", "weight_group_size"):
            if hasattr(m, attr):
                out[f"A:{name}.{attr}"] = str(getattr(m, attr))
        out["T:" + name] = type(m).__name__ + ":" + str(m.training)
    return out


def diff(a, b):
    keys = sorted(set(a) | set(b))
    return [k for k in keys if a.get(k) != b.get(k)]
