"""Workload generators: value classes, shapes, layouts. Independent of quanto."""

import math

import numpy as np
import torch

DTYPES = {"float32": torch.float32, "float16": torch.float16, "bfloat16": torch.bfloat16}


def all_finite(dtype):
    """Every finite value of a 16-bit float dtype (one tensor)."""
    bits = torch.arange(-32768, 32768, dtype=torch.int32).to(torch.int16)
    v = bits.view(dtype)
    return v[torch.isfinite(v)]


def random_bits_f32(rng, n):
    b = rng.integers(0, 2**32, size=n, dtype=np.uint64).astype(np.uint32)
    v = torch.from_numpy(b.view(np.int32).copy()).view(torch.float32)
    return v[torch.isfinite(v)]


def loguniform(rng, lo, hi, size=None):
    return np.exp(rng.uniform(math.log(lo), math.log(hi), size=size))


def t(values, dtype):
    return torch.tensor(np.asarray(values, dtype=np.float64), dtype=torch.float64).to(dtype)


VALUE_CLASSES = ["zeros", "constant", "one_sided_pos", "one_sided_neg", "offset", "subnormal", "near_max", "mixed",
                 "single_nonzero", "heavy_tail", "tiny", "ordinary"]


def value_class(rng, name, n, dtype, mag=None):
    """n values (float64 numpy) of the named class, representable-ish in dtype (cast later)."""
    fi = torch.finfo(dtype)
    if mag is None:
        mag = float(loguniform(rng, 1e-3, 1e3))
    if name == "zeros":
        v = np.zeros(n)
    elif name == "constant":
        v = np.full(n, mag * rng.choice([-1.0, 1.0]))
    elif name == "one_sided_pos":
        v = rng.uniform(0.05, 1.0, n) * mag
    elif name == "one_sided_neg":
        v = -rng.uniform(0.05, 1.0, n) * mag
    elif name == "offset":
        v = mag * rng.choice([-1.0, 1.0]) * (1.0 + 0.01 * rng.standard_normal(n))
    elif name == "subnormal":
        v = rng.uniform(-1, 1, n) * fi.smallest_normal * 0.5
    elif name == "tiny":
        v = rng.uniform(-1, 1, n) * fi.smallest_normal * 64
    elif name == "near_max":
        v = rng.uniform(0.5, 1.0, n) * fi.max * rng.choice([-1.0, 1.0], n)
        v[rng.integers(0, n)] = fi.max * rng.choice([-1.0, 1.0])
    elif name == "mixed":
        v = rng.uniform(-1, 1, n) * mag
    elif name == "single_nonzero":
        v = np.zeros(n)
        v[rng.integers(0, n)] = mag * rng.choice([-1.0, 1.0])
    elif name == "heavy_tail":
        v = rng.standard_cauchy(n) * mag * 0.05
        v = np.clip(v, -fi.max / 4, fi.max / 4)
    elif name == "ordinary":
        v = rng.standard_normal(n) * mag
    else:
        raise KeyError(name)
    return v


def layouts(x, rng=None, which=("contiguous", "transposed", "sliced", "expanded")):
    """Yield (name, tensor with the same VALUES as x but another memory layout)."""
    for w in which:
        if w == "contiguous":
            yield w, x.contiguous()
        elif w == "transposed" and x.ndim >= 2:
            y = x.transpose(0, -1).contiguous().transpose(0, -1)  # same values, permuted strides
            yield w, y
        elif w == "sliced" and x.ndim >= 1:
            big = torch.zeros([x.shape[0] * 2] + list(x.shape[1:]), dtype=x.dtype)
            big[::2] = x
            yield w, big[::2]
        elif w == "windows" and x.ndim == 2 and x.numel() >= x.shape[0] + x.shape[1] - 1:
            # sliding windows over a vector (unfold): rows overlap in memory, strides (1, 1). NOT the values of x: the rows of
            # the result are consecutive windows of x's first elements (judged against their own values)
            v = x.reshape(-1)[: x.shape[0] + x.shape[1] - 1].contiguous()
            yield w, v.unfold(0, x.shape[1], 1)
        elif w == "expanded" and x.ndim >= 2:
            # a stride-0 tensor has equal values along the expanded dim: build it from the first slice
            y = x[:1].expand(x.shape)
            yield w, y


def divisors(n):
    return [d for d in range(1, n + 1) if n % d == 0]


SMALL_SHAPES = [(8,), (16,), (2, 8), (8, 2), (4, 16), (16, 4), (3, 32), (32, 3), (1, 16), (16, 1), (2, 4, 8), (4, 1, 8),
                (2, 3, 4, 8), (4, 8, 8, 16), (5, 7), (7, 5), (6, 6), (12, 12), (2, 2, 2, 2), (64, 3), (3, 64), (128, 2),
                (2, 256), (8, 1), (1, 8), (6, 4, 1, 1), (6, 4, 3, 1), (1, 5, 6), (6, 1, 1, 4)]  # unit dims opposite to the kept axis


def int8pack_crash_class(dtype, weight_qtype_name, in_features, quantized_activations=False):
    """Known native crash class of this torch build (finding C07-F33): bfloat16 float activations x int8 weights reach
    torch._weight_int8pack_mm when in_features % 4 == 0; the kernel segfaults (or returns non-repeatable garbage) when a
    weight row is not 16-byte aligned: always for in_features % 16 != 0, and for any in_features when the payload comes
    from a safetensors file (unaligned storage). Workloads of other properties steer around the whole route; C07 probes
    it (freshly allocated operands, and the crashing class in sacrificial worker processes)."""
    return dtype == torch.bfloat16 and str(weight_qtype_name) == "qint8" and not quantized_activations and \
        in_features % 4 == 0
