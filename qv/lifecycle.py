"""Runnable model builders and state recorders shared by the history checkers (C09, C10, C11, C12, C13)."""

import numpy as np
import torch
import torch.nn as nn

from qv import fp, gen

MODEL_KINDS = ["linear", "mlp_small", "mlp_big", "mlp_ln", "conv", "convnet", "mlp_nested", "scalar_head", "two_heads",
               "attention", "mlp_odd", "conv_big"]


class Block(nn.Module):
    def __init__(self, d):
        super().__init__()
        self.fc = nn.Linear(d, d)
        self.act = nn.GELU()

    def forward(self, x):
        return self.act(self.fc(x))


class TwoHeads(nn.Module):
    """A shared trunk read by two heads, one of them scalar (value / reward head)."""

    def __init__(self):
        super().__init__()
        self.trunk = nn.Linear(16, 16)
        self.value = nn.Linear(16, 1)
        self.policy = nn.Linear(16, 4)

    def forward(self, x):
        h = torch.relu(self.trunk(x))
        h = h.dequantize() if hasattr(h, "qtype") else h
        v, p = self.value(h), self.policy(h)
        v = v.dequantize() if hasattr(v, "qtype") else v
        p = p.dequantize() if hasattr(p, "qtype") else p
        return torch.cat([p, v], dim=-1)


class Attention(nn.Module):
    """Single-head self-attention with a residual: products of two quantized activations (q @ k^T, probs @ v), a softmax
    and transposes of quantized tensors sit between the quantized layers."""

    def __init__(self, d=16):
        super().__init__()
        self.q, self.k, self.v, self.o = nn.Linear(d, d), nn.Linear(d, d), nn.Linear(d, d), nn.Linear(d, d)
        self.d = d

    def forward(self, x):
        q, k, v = self.q(x), self.k(x), self.v(x)
        scores = torch.matmul(q, k.transpose(-1, -2)) / (self.d ** 0.5)
        probs = torch.softmax(scores, dim=-1)
        ctx = torch.matmul(probs, v)
        out = self.o(ctx)
        out = out.dequantize() if hasattr(out, "qtype") else out
        return out + x


def build(kind, wd, rng=None):
    """Returns (model in eval mode and dtype wd, input shape). Weights come from torch's RNG (seeded per case)."""
    if kind == "linear":
        m, shape = nn.Sequential(nn.Linear(24, 8)), (3, 24)
    elif kind == "mlp_small":
        m, shape = nn.Sequential(nn.Linear(16, 32), nn.ReLU(), nn.Linear(32, 8)), (4, 16)
    elif kind == "mlp_big":
        m, shape = nn.Sequential(nn.Linear(160, 256), nn.GELU(), nn.Linear(256, 16, bias=False)), (2, 160)
    elif kind == "mlp_ln":
        m, shape = nn.Sequential(nn.Linear(32, 32), nn.LayerNorm(32), nn.ReLU(), nn.Linear(32, 8)), (2, 5, 32)
    elif kind == "conv":
        m, shape = nn.Sequential(nn.Conv2d(3, 4, 3, padding=1)), (2, 3, 6, 6)
    elif kind == "convnet":
        m, shape = nn.Sequential(nn.Conv2d(2, 4, 3, padding=1, padding_mode="circular"), nn.ReLU(),
                                 nn.Conv2d(4, 4, 3, groups=2, bias=False), nn.Flatten(), nn.Linear(4 * 4 * 4, 8)), (2, 2, 6, 6)
    elif kind == "scalar_head":
        m, shape = nn.Sequential(nn.Linear(16, 16), nn.ReLU(), nn.Linear(16, 1)), (5, 16)
    elif kind == "two_heads":
        m, shape = TwoHeads(), (3, 16)
    elif kind == "mlp_nested":
        m, shape = nn.Sequential(Block(16), nn.Sequential(Block(16), nn.Linear(16, 4))), (3, 16)
    elif kind == "conv_big":  # long enough sums (32 x 3 x 3) for kernels to differ between memory formats
        m, shape = nn.Sequential(nn.Conv2d(32, 32, 3, padding=1), nn.ReLU(), nn.Conv2d(32, 8, 3)), (2, 32, 8, 8)
    elif kind == "attention":
        m, shape = Attention(16), (2, 5, 16)
    elif kind == "mlp_odd":  # row counts that leave every remainder modulo the packing factors (10, 7, 3 rows)
        m, shape = nn.Sequential(nn.Linear(48, 10), nn.ReLU(), nn.Linear(10, 7), nn.Tanh(), nn.Linear(7, 3)), (3, 48)
    else:
        raise KeyError(kind)
    # mostly eval mode (inference, calibration), sometimes train mode: nothing in these models depends on it, so neither
    # may anything the library does to them (torch's RNG is seeded per case)
    m = m.to(wd).eval()
    if bool(torch.rand(()) < 0.3):
        m.train()
    return m, shape


def batch(rng, shape, wd, mag=None, layouts=True):
    """A random batch; one time in four its memory layout is what real pipelines hand to a model (the result of a
    transpose, a channels_last image batch) - same values, other strides."""
    mag = float(np.exp(rng.uniform(np.log(0.1), np.log(10)))) if mag is None else mag
    x = (torch.from_numpy(rng.standard_normal(shape)) * mag).to(wd)
    c = rng.random() if layouts else 1.0
    if c < 0.15 and x.ndim >= 2:
        x = x.transpose(0, -1).contiguous().transpose(0, -1)
    elif c < 0.25 and x.ndim == 4:
        x = x.contiguous(memory_format=torch.channels_last)
    return x


def crash_hazard(kind, wd, wq, aq):
    """True when a Linear of this model falls into a known native crash class (C07-F33/F34)."""
    feats = {"linear": [24], "mlp_small": [16, 32], "mlp_big": [160, 256], "mlp_ln": [32, 32], "conv": [],
             "convnet": [64], "mlp_nested": [16, 16, 16], "scalar_head": [16, 16], "two_heads": [16, 16, 16],
             "attention": [16, 16, 16, 16], "mlp_odd": [48, 10, 7], "conv_big": []}[kind]
    return any(gen.int8pack_crash_class(wd, wq, f, quantized_activations=aq is not None) for f in feats)


def out_fp(o):
    if isinstance(o, torch.Tensor):
        return type(fp.unwrap_param(o)).__name__ + ":" + fp.tensor_fp(o)
    return repr(o)


def qmodules(model):
    return [(n, m) for n, m in model.named_modules() if hasattr(m, "weight_qtype") and hasattr(m, "activation_qtype")]


def record(model, probes, ignore_meta=()):
    """State observed at the model boundary: outputs on the probe set, every parameter/buffer/qtype fingerprint."""
    st = {"outs": [], "state": fp.state_fp(model, ignore_meta)}
    with torch.no_grad():
        for x in probes:
            st["outs"].append(out_fp(model(x)))
    return st


def split_state(state, model):
    """Partition fingerprints: quantizable weights / everything else (biases, scales, other modules)."""
    wnames = {"P:" + (n + "." if n else "") + "weight" for n, m in qmodules(model) if m.weight_qtype is not None}
    weights = {k: v for k, v in state.items() if k in wnames}
    rest = {k: v for k, v in state.items() if k not in wnames and not k.startswith("T:")}
    return weights, rest


def hostile_rows(model, rng, p=0.5):
    """Give some output rows of every Linear/Conv2d weight a degenerate range (all positive, all negative, zero,
    constant, tiny): pruned / gated / biased rows of real checkpoints, which put zero-points and scales at their limits."""
    if rng.random() > p:
        return False
    with torch.no_grad():
        for m in model.modules():
            if isinstance(m, (nn.Linear, nn.Conv2d)):
                w = m.weight
                for row in range(w.shape[0]):
                    c = rng.random()
                    if c < 0.12:
                        w[row] = w[row].abs() + 0.01
                    elif c < 0.24:
                        w[row] = -w[row].abs() - 0.01
                    elif c < 0.30:
                        w[row] = 0
                    elif c < 0.36:
                        w[row] = 0.25
                    elif c < 0.40:
                        w[row] = w[row] * 1e-3
    return True
