"""Entry point:  python -m qv.main <Cnn> quick|thorough   |   <Cnn> --replay <path>   |  --worker ..."""

import importlib
import json
import os
import sys
import time

from qv import runner


def main(argv):
    if argv and argv[0] == "--worker":
        _, prop, tier, seed, shard, nshards, out, intent, resume_after, only_case = argv
        runner.worker_main(prop, tier, int(seed), int(shard), int(nshards), out, intent, int(resume_after),
                           None if only_case == "" else int(only_case))
        return 0
    if len(argv) < 2:
        print("usage: check <Cnn> quick|thorough | check <Cnn> --replay <path>")
        return 2
    prop = argv[0].upper()
    t0 = time.time()
    seed = int(os.environ.get("VERIF_SEED", "0") or 0)
    mod = importlib.import_module("qv.props." + prop.lower())
    meta = mod.META
    env_extra = meta.get("env")
    pyflags = tuple(meta.get("pyflags", ()))
    if argv[1] == "--replay":
        with open(argv[2]) as f:
            rp = json.load(f)
        tier, seed = rp["tier"], int(rp["seed"])
        nshards = rp["case"]["nshards"]
        if hasattr(mod, "prepare"):
            env_extra = dict(env_extra or {}, **(mod.prepare(tier) or {}))
        wd = meta.get("watchdog_s", 3600)
        wd = wd.get(tier, 3600) if isinstance(wd, dict) else wd
        m, notes = runner.run_shards(prop, tier, seed, nshards, wd,
                                     only=(rp["case"]["shard"], rp["case"]["index"]), env_extra=env_extra,
                                     pyflags=pyflags)
        return runner.conclude(prop, tier, seed, meta, m, notes, t0, replay_mode=True)
    tier = os.environ.get("VERIF_TIER") or argv[1]
    if tier not in ("quick", "thorough"):
        tier = argv[1]
    nshards = meta.get("shards", {}).get(tier, 1)
    notes = []
    if hasattr(mod, "prepare"):  # e.g. sanitizer build of the C++ extension from the working tree
        try:
            extra = mod.prepare(tier)
            env_extra = dict(env_extra or {}, **(extra or {}))
        except Exception as e:
            m = runner.merge([])
            m["inconclusive"].append(f"prepare() failed: {type(e).__name__}: {e}")
            return runner.conclude(prop, tier, seed, meta, m, notes, t0)
    m, notes = runner.run_shards(prop, tier, seed, nshards, meta.get("watchdog_s", {}).get(tier, 3600)
                                 if isinstance(meta.get("watchdog_s"), dict) else meta.get("watchdog_s", 3600),
                                 env_extra=env_extra, pyflags=pyflags,
                                 max_parallel=int(os.environ.get("QV_JOBS", "16")))
    if hasattr(mod, "finalize"):
        mod.finalize(m, tier)
    return runner.conclude(prop, tier, seed, meta, m, notes, t0)


if __name__ == "__main__":
    sys.exit(main(sys.argv[1:]))
