"""Independent reference arithmetic (float64 / integers). Never imports quanto.

Trusted base: torch's exact widening casts (int8/float8/float16/bfloat16/float32 -> float64), float64 arithmetic,
torch.searchsorted.
"""

import math

import torch

F64 = torch.float64

# explicit mantissa bits and minimum normal exponent of the working float dtypes
_FMT = {
    torch.float32: (23, -126),
    torch.float16: (10, -14),
    torch.bfloat16: (7, -126),
    torch.float8_e4m3fn: (3, -6),
    torch.float8_e5m2: (2, -14),
    torch.float64: (52, -1022),
}


def fmax(dtype):
    return float(torch.finfo(dtype).max)


def eps(dtype):
    return 2.0 ** -_FMT[dtype][0]


def smallest_normal(dtype):
    return 2.0 ** _FMT[dtype][1]


def smallest_subnormal(dtype):
    p, emin = _FMT[dtype]
    return 2.0 ** (emin - p)


def ulp(x, dtype):
    """Spacing of `dtype` at |x| (float64 tensor in, float64 tensor out), with the subnormal floor."""
    p, emin = _FMT[dtype]
    ax = x.abs().to(F64)
    _, e = torch.frexp(ax)  # ax = m * 2**e, m in [0.5, 1)
    e = (e - 1).clamp(min=emin).to(F64)
    out = torch.pow(torch.tensor(2.0, dtype=F64), e - p)
    return out


_TABLES = {}


def code_table(storage_dtype):
    """Sorted finite representable codes of an 8-bit storage dtype, as float64."""
    if storage_dtype in _TABLES:
        return _TABLES[storage_dtype]
    b = torch.arange(256, dtype=torch.int16).to(torch.uint8)
    if storage_dtype == torch.int8:
        v = b.view(torch.int8).to(F64)
    else:
        v = b.view(storage_dtype).to(torch.float32).to(F64)
    v = v[torch.isfinite(v)]
    v = torch.unique(v)  # sorted; -0.0 and 0.0 collapse
    _TABLES[storage_dtype] = v
    return v


def nearest(x, s, table):
    """For float64 x and s (broadcastable): (distance to the nearest grid point s*v, lower cand v, upper cand v)."""
    x = x.to(F64)
    s = s.to(F64).expand_as(x) if s.ndim else s.to(F64)
    q = x / s
    idx = torch.searchsorted(table, q.contiguous())
    lo = table[(idx - 1).clamp(min=0)]
    hi = table[idx.clamp(max=table.numel() - 1)]
    d = torch.minimum((x - s * lo).abs(), (x - s * hi).abs())
    return d, lo, hi


def group_ids(shape, axis, group_size):
    """Independent model of which elements share a scale.

    Returns an int64 tensor of `shape` holding a group identifier per element.
    axis None: one group. axis 0 / -1 without group_size: one group per index of that axis.
    With group_size: for each index of the axis, the remaining elements taken in row-major order are cut into
    consecutive runs of group_size elements.
    """
    numel = 1
    for d in shape:
        numel *= d
    if axis is None:
        return torch.zeros(shape, dtype=torch.int64)
    nd = len(shape)
    ax = 0 if axis == 0 else nd - 1
    n_ax = shape[ax]
    idx = torch.arange(numel).reshape(shape)
    # coordinate along the kept axis
    stride_after = 1
    for d in shape[ax + 1:]:
        stride_after *= d
    coord = (idx // stride_after) % n_ax
    if group_size is None:
        return coord
    per = numel // n_ax
    # rank of the element among the elements of its axis index, in row-major order of the other dims
    if ax == 0:
        rank = idx % per
    else:
        rank = idx // n_ax
    return coord * (per // group_size) + rank // group_size


def dot_bound(ref, abs_dot, bias_abs, K, out_dtype, c=8.0):
    """Forward error bound of an fp32-accumulated dot product rounded once to out_dtype.

    ref: float64 reference; abs_dot: sum_k |x_k w_k| in float64; bias_abs: |bias| (or 0)."""
    e_out = eps(out_dtype)
    e32 = eps(torch.float32)
    return c * e_out * (ref.abs() + bias_abs) + 2.0 * K * e32 * abs_dot + 4 * smallest_subnormal(out_dtype)


def bytes_of(t):
    """Raw bytes of a plain tensor (NaN-safe equality)."""
    with torch._C.DisableTorchFunctionSubclass():
        t = t.detach().contiguous()
        if t.numel() == 0:
            return b""
        return t.view(torch.uint8).numpy().tobytes() if t.dim() > 0 else t.reshape(1).view(torch.uint8).numpy().tobytes()


def ceil_div(a, b):
    return -(-a // b)
