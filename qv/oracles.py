"""Per-element oracles shared by several properties (C01/C02/C03/C06, reused by C14 and C16).

Every function returns a list of failures: dicts {"kind": <mechanism-level label>, ...numbers...}.
They read the quantized tensor through __tensor_flatten__ and dequantize() only.
"""

import torch

from qv import fp, num

F64 = torch.float64


def _codes64(codes):
    if codes.dtype in (torch.float8_e4m3fn, torch.float8_e5m2):
        return codes.to(torch.float32).to(F64)
    return codes.to(F64)


def _first(mask, **tensors):
    """Witness: first offending element."""
    i = int(torch.nonzero(mask.reshape(-1))[0])
    out = {"flat_index": i, "count": int(mask.sum())}
    for k, t in tensors.items():
        if isinstance(t, torch.Tensor):
            tt = t.expand(mask.shape).reshape(-1) if t.numel() != mask.numel() else t.reshape(-1)
            out[k] = float(tt[i])
    return out


def plain(t):
    """A detached plain torch.Tensor with the same values (for autograd Function outputs etc.)."""
    with torch._C.DisableTorchFunctionSubclass():
        return t.detach()


# --------------------------------------------------------------------------------------------------
# C01: symmetric 8-bit quantization is a nearest-grid-point projection
# --------------------------------------------------------------------------------------------------

def check_symmetric(x, storage, scale, q, requant=None, stats=None, idem=None, judge_mask=None):
    """x: plain source tensor (working dtype wd); scale: plain tensor broadcastable to x, dtype wd (the grid);
    q: the quantized result. requant: callable(dq) -> quantized tensor with the same configuration (idempotence).
    """
    wd = x.dtype
    fails = []
    X = x.to(F64)
    S = scale.to(F64)
    if S.ndim == 0:
        S = S.reshape([1] * X.ndim) if X.ndim else S
    S = S.expand_as(X)
    table = num.code_table(storage)
    inn, _meta = fp.inner(q)
    codes = plain(inn["_data"])
    if tuple(codes.shape) != tuple(x.shape) and codes.numel() != x.numel():
        return [{"kind": "codes_count", "codes_shape": list(codes.shape), "shape": list(x.shape)}]
    C = _codes64(codes).reshape(X.shape)
    dq_t = plain(q.dequantize())
    if tuple(dq_t.shape) != tuple(x.shape):
        return [{"kind": "dq_shape", "dq_shape": list(dq_t.shape), "shape": list(x.shape)}]
    if dq_t.dtype != wd:
        fails.append({"kind": "dq_dtype", "got": str(dq_t.dtype), "want": str(wd)})
    DQ = dq_t.to(F64)
    fm = num.fmax(wd)
    # (i) codes are finite members of the code table
    bad = ~torch.isfinite(C)
    if bad.any():
        fails.append(dict(kind="nonfinite_code", **_first(bad, x=X, s=S)))
        C = torch.where(bad, torch.zeros_like(C), C)
    mind, lo, hi = num.nearest(X, S, table)
    judged = ((S * lo.abs()) <= fm) & ((S * hi.abs()) <= fm)
    if judge_mask is not None:
        judged = judged & judge_mask
    if stats is not None:
        stats["judged"] = int(judged.sum())
        stats["elements"] = int(judged.numel())
    # (ii) dequantize() == fl(scale * code) within 1 ulp
    prod = S * C
    rep = prod.abs() <= fm
    d2 = (DQ - prod).abs()
    tol2 = 1.0 * num.ulp(prod, wd)
    bad = rep & judged & ~(d2 <= tol2)
    if bad.any():
        fails.append(dict(kind="dequantize_not_scale_times_code", **_first(bad, x=X, s=S, code=C, dq=DQ)))
    # (iii) optimality (covers rounding mode, clamp off-by-one, wrapping, wrong-axis scale)
    err = (X - DQ).abs()
    tol = 4.0 * (num.ulp(X, wd) + num.ulp(DQ.nan_to_num(0, 0, 0), wd) + S * num.ulp(X / S, wd))
    bad = judged & ~(err <= mind + tol)
    if stats is not None and judged.any():
        ok = judged & torch.isfinite(err)
        ex = (err - mind)[ok] / tol[ok]
        if ex.numel():
            stats["max_excess_over_tol"] = float(ex.max())
    if bad.any():
        w = _first(bad, x=X, s=S, code=C, dq=DQ, err=err, best=mind, tol=tol)
        # mechanism label: how far (in steps of the local grid) the chosen point is from the best one
        i = w["flat_index"]
        qv_ = float((X / S).reshape(-1)[i])
        tmax, tmin = float(table[-1]), float(table[0])
        if qv_ > tmax or qv_ < tmin:
            kind = "saturation_not_at_end_point"
        else:
            kind = "not_nearest_grid_point"
        fails.append(dict(kind=kind, q=qv_, **w))
    # (iii-b) saturation is exact: an element clearly beyond the grid takes the end point on its own side. The optimality
    # bound above cannot see a wrap for elements far beyond the grid (its rounding terms, in ulps of the element, exceed the
    # width of the whole grid), so the code itself is compared.
    Qe = X / S
    tmax, tmin = float(table[-1]), float(table[0])
    margin = 8.0 * num.eps(wd)
    hi_sat = judged & torch.isfinite(Qe) & (Qe * (1 - margin) > tmax) | judged & (Qe == float("inf"))
    lo_sat = judged & torch.isfinite(Qe) & (Qe * (1 - margin) < tmin) | judged & (Qe == float("-inf"))
    bad = (hi_sat & (C != tmax)) | (lo_sat & (C != tmin))
    if stats is not None:
        stats["saturated_judged"] = int(hi_sat.sum() + lo_sat.sum())
    if bad.any():
        fails.append(dict(kind="saturation_not_at_end_point", exact=True, **_first(bad, x=X, s=S, code=C, dq=DQ, q=Qe)))
    # (iv) idempotence for float32 / float16 sources
    if requant is not None and wd in (torch.float32, torch.float16):
        vmin = float(table[table > 0][0])
        dom = judged & torch.isfinite(DQ) & (S * vmin >= num.smallest_normal(wd))
        if dom.any():
            try:
                q2 = requant(dq_t)
                C2 = _codes64(plain(fp.inner(q2)[0]["_data"])).reshape(X.shape)
                bad = dom & ~(C2 == C)
                if idem is not None:
                    idem["n"] = idem.get("n", 0) + int(dom.sum())
                if bad.any():
                    fails.append(dict(kind="requantize_changes_codes", **_first(bad, x=X, s=S, code=C, code2=C2, dq=DQ)))
            except Exception as e:  # the requantization of a finite dequantized tensor must not raise
                fails.append({"kind": "requantize_raises", "exc": type(e).__name__, "msg": str(e)[:120]})
    return fails


# --------------------------------------------------------------------------------------------------
# C02: int2/int4 affine quantization error <= half a step per group
# --------------------------------------------------------------------------------------------------

def group_hull(X, gid, ngroups):
    """Per-element (lo_g, hi_g): hull of the group's values and 0. X float64, gid int64 same shape."""
    flat = X.reshape(-1)
    g = gid.reshape(-1)
    lo = torch.zeros(ngroups, dtype=F64).scatter_reduce(0, g, flat, reduce="amin", include_self=True)
    hi = torch.zeros(ngroups, dtype=F64).scatter_reduce(0, g, flat, reduce="amax", include_self=True)
    return lo[g].reshape(X.shape), hi[g].reshape(X.shape)


def check_affine(x, bits, axis, group_size, q, requant=None, stats=None):
    wd = x.dtype
    fails = []
    if tuple(q.shape) != tuple(x.shape):
        return [{"kind": "shape", "got": list(q.shape), "want": list(x.shape)}]
    dq_t = plain(q.dequantize())
    if tuple(dq_t.shape) != tuple(x.shape):
        return [{"kind": "dq_shape", "got": list(dq_t.shape), "want": list(x.shape)}]
    if dq_t.dtype != wd:
        fails.append({"kind": "dq_dtype", "got": str(dq_t.dtype), "want": str(wd)})
    X = x.to(F64)
    DQ = dq_t.to(F64)
    gid = num.group_ids(tuple(x.shape), axis, group_size)
    ng = int(gid.max()) + 1
    lo, hi = group_hull(X, gid, ng)
    nlev = 2 ** bits - 1
    s = (hi - lo) / nlev  # nominal step of the statement
    big = torch.maximum(torch.maximum(X.abs(), hi.abs()), lo.abs())
    sdiv = torch.where(s > 0, s, torch.ones_like(s))
    tol = 4.0 * (num.ulp(big, wd) + s * num.ulp(X / sdiv, wd)) + nlev * num.ulp(s, wd)
    bound = s / 2 + tol
    err = (DQ - X).abs()
    bad = ~(err <= bound)  # catches NaN/Inf as well
    if stats is not None:
        okm = torch.isfinite(err) & (bound > 0)
        if okm.any():
            stats["max_err_over_bound"] = float((err[okm] / bound[okm]).max())
        stats["elements"] = int(err.numel())
    if bad.any():
        w = _first(bad, x=X, dq=DQ, err=err, bound=bound, step=s, lo=lo, hi=hi)
        i = w["flat_index"]
        if not bool(torch.isfinite(DQ.reshape(-1)[i])):
            kind = "nonfinite_dequantized"
        elif float(lo.reshape(-1)[i]) == 0.0 and float(hi.reshape(-1)[i]) == 0.0:
            kind = "zero_group_not_zero"
        elif float((hi - lo).reshape(-1)[i]) > 0 and (float(torch.min(X[gid == gid.reshape(-1)[i]])) > 0 or
                                                        float(torch.max(X[gid == gid.reshape(-1)[i]])) < 0):
            kind = "one_sided_group_error"
        else:
            kind = "error_above_half_step"
        fails.append(dict(kind=kind, **w))
    if requant is not None and wd in (torch.float32, torch.float16) and not bad.any():
        # Idempotence, judged through dequantize() (layout independent: with a non-zero scale equal codes <=> equal
        # values). Domain: groups whose nominal step is a normal number of the working dtype (below that the product
        # scale*code loses the bits idempotence needs).
        dom = s >= 2 * num.smallest_normal(wd)
        try:
            q2 = requant(dq_t)
            DQ2 = plain(q2.dequantize()).to(F64)
            neq = dom & ~(DQ2 == DQ)
            if stats is not None:
                stats["idem_elements"] = int(dom.sum())
            if neq.any():
                fails.append(dict(kind="requantize_changes_codes", **_first(neq, x=X, dq=DQ, dq2=DQ2, step=s, lo=lo, hi=hi)))
        except Exception as e:
            fails.append({"kind": "requantize_raises", "exc": type(e).__name__, "msg": str(e)[:120]})
    return fails


def unpacked_codes(q):
    """Codes of a low-bit tensor, unpacked, as a plain uint8 tensor in the payload's own (grouped) layout."""
    inn, _ = fp.inner(q)
    d = inn["_data"]
    if fp.is_wrapper(d):
        return plain(d.unpack())
    return plain(d)


# --------------------------------------------------------------------------------------------------
# C06: metadata invariant
# --------------------------------------------------------------------------------------------------

def check_meta(t, expect_qtype=None, expect_axis="any", expect_group="any", deq=True):
    """Invariant of C06 on one quantized tensor. Returns failures."""
    fails = []
    t = fp.unwrap_param(t)
    cls = type(t).__name__
    try:
        inn, meta = fp.inner(t)
    except Exception as e:
        return [{"kind": "flatten_raises", "exc": type(e).__name__}]
    qtype = getattr(t, "qtype", None)
    axis = getattr(t, "axis", None)
    numel = 1
    for d in t.shape:
        numel *= d
    if expect_qtype is not None and getattr(qtype, "name", None) != expect_qtype:
        fails.append({"kind": "qtype_not_requested", "got": str(getattr(qtype, "name", None)), "want": expect_qtype})
    if expect_axis != "any" and axis != expect_axis:
        fails.append({"kind": "axis_not_requested", "got": str(axis), "want": str(expect_axis)})
    scale = inn.get("_scale")
    data = inn.get("_data")
    zp = inn.get("_zeropoint")
    if scale is None or data is None:
        return fails + [{"kind": "missing_inner", "cls": cls}]
    if deq:
        try:
            dq = plain(t.dequantize())
            if tuple(dq.shape) != tuple(t.shape):
                fails.append({"kind": "shape_mismatch", "reported": list(t.shape), "dequantized": list(dq.shape),
                              "cls": cls})
            if dq.dtype != t.dtype:
                fails.append({"kind": "dtype_mismatch", "reported": str(t.dtype), "dequantized": str(dq.dtype)})
            if dq.device != t.device:
                fails.append({"kind": "device_mismatch"})
        except Exception as e:
            fails.append({"kind": "dequantize_raises", "exc": type(e).__name__, "msg": str(e)[:100], "cls": cls})
    if scale.dtype != t.dtype:
        fails.append({"kind": "scale_dtype", "scale": str(scale.dtype), "reported": str(t.dtype)})
    if fp.is_wrapper(data):  # packed low-bit payload
        pinn, pmeta = fp.inner(data)
        payload = pinn["_data"]
        bits = getattr(data, "bits", getattr(data, "_bits", None))
        if qtype is not None and bits is not None and bits != qtype.bits:
            fails.append({"kind": "bits_mismatch", "payload_bits": bits, "qtype_bits": qtype.bits})
        if bits in (2, 4) and type(data).__name__ == "PackedTensor":
            rows = data.shape[0] if data.ndim else 1
            want_rows = num.ceil_div(rows * bits, 8)
            if payload.dtype != torch.uint8 or payload.shape[0] != want_rows or \
                    tuple(payload.shape[1:]) != tuple(data.shape[1:]):
                fails.append({"kind": "payload_not_dense", "payload": list(payload.shape), "unpacked": list(data.shape),
                              "dtype": str(payload.dtype)})
        dnumel = 1
        for d in data.shape:
            dnumel *= d
        if dnumel != numel:
            fails.append({"kind": "codes_count", "codes": dnumel, "numel": numel, "cls": cls})
    else:
        if data.numel() != numel:
            fails.append({"kind": "codes_count", "codes": int(data.numel()), "numel": numel, "cls": cls})
        if qtype is not None and data.dtype != qtype.dtype:
            fails.append({"kind": "storage_dtype", "payload": str(data.dtype), "qtype": str(qtype.dtype)})
        if cls == "QBytesTensor" and tuple(data.shape) != tuple(t.shape):
            fails.append({"kind": "payload_shape", "payload": list(data.shape), "reported": list(t.shape)})
    # scale / zero-point layout
    gs = getattr(t, "_group_size", None)
    if cls == "QBytesTensor":
        if axis is None:
            if scale.numel() != 1:
                fails.append({"kind": "scale_count", "numel": int(scale.numel()), "axis": "None"})
        else:
            nd = t.ndim
            if nd and not (-nd <= axis < nd):
                fails.append({"kind": "axis_out_of_range", "axis": str(axis), "ndim": nd})
                return fails
            ax = axis % nd if nd else 0  # the axis that is *declared* (not "whatever is not 0")
            want = [1] * nd
            if nd:
                want[ax] = t.shape[ax]
            if list(scale.shape) != want:
                fails.append({"kind": "scale_layout", "scale": list(scale.shape), "want": want, "axis": str(axis)})
    elif zp is not None and cls == "QBitsTensor":
        if tuple(zp.shape) != tuple(scale.shape):
            fails.append({"kind": "zeropoint_layout", "zp": list(zp.shape), "scale": list(scale.shape)})
        if zp.dtype != torch.int8:
            fails.append({"kind": "zeropoint_dtype", "dtype": str(zp.dtype)})
        if t.ndim >= 1 and numel and axis is not None and not (-t.ndim <= axis < t.ndim):
            fails.append({"kind": "axis_out_of_range", "axis": str(axis), "ndim": t.ndim})
        elif t.ndim >= 1 and numel:
            ax = (axis % t.ndim) if axis is not None else t.ndim - 1
            n_ax = t.shape[ax]
            per = numel // n_ax
            ngroups = n_ax * (per // gs if gs else 1)
            ok_counts = {ngroups}
            if t.ndim == 1 and not gs:
                ok_counts.add(1)  # 1-D without group size: per-tensor is accepted (statement does not fix it)
            if scale.numel() not in ok_counts:
                fails.append({"kind": "scale_count", "numel": int(scale.numel()), "want": ngroups, "axis": str(axis),
                              "group_size": str(gs)})
        if expect_group != "any" and gs != expect_group:
            fails.append({"kind": "group_not_requested", "got": str(gs), "want": str(expect_group)})
    return fails
