"""Random op-program generator over quantized/plain operands (workload of C05/C06)."""

import math

import numpy as np
import torch
import torch.nn.functional as F

SIZES = [1, 2, 3, 4, 5, 8, 16, 17, 24, 32]


def rshape(rng, rank=None, maxnumel=2048):
    if rank is None and rng.random() < 0.03:
        return ()  # 0-dim tensors are tensors too
    rank = int(rng.integers(1, 5)) if rank is None else rank
    while True:
        shape = tuple(int(SIZES[rng.integers(len(SIZES))]) for _ in range(rank))
        if np.prod(shape) <= maxnumel:
            return shape


class Pool:
    def __init__(self, oq, rng, wd, avoid=None):
        self.oq, self.rng, self.wd = oq, rng, wd
        self.items = []  # (tensor, tag)
        self.avoid = avoid or {}

    def randn(self, shape, mag=None):
        mag = float(np.exp(self.rng.uniform(math.log(0.05), math.log(20)))) if mag is None else mag
        x = torch.as_tensor(np.asarray(self.rng.standard_normal(shape), dtype=np.float64) * mag, dtype=torch.float32).reshape(shape)
        return x.to(self.wd)

    def act(self, shape, qtn="qint8", scale=None, x=None):
        oq = self.oq
        x = self.randn(shape) if x is None else x
        qt = oq.qtypes[qtn]
        if scale is None:
            qmax = 127.0 if qtn == "qint8" else float(torch.finfo(qt.dtype).max)
            amax = float(x.abs().max()) if x.numel() else 1.0
            scale = torch.tensor(max(amax, 1e-3) / qmax * float(self.rng.choice([1.0, 1.0, 0.5, 2.0])), dtype=self.wd)
        return oq.quantize_activation(x, qt, scale)

    def weight(self, shape, qtn="qint8", axis=0, group=None, x=None):
        oq = self.oq
        x = self.randn(shape) if x is None else x
        return oq.quantize_weight(x, oq.qtypes[qtn], axis, group) if group is not None or qtn in ("qint2", "qint4") \
            else oq.quantize_weight(x, oq.qtypes[qtn], axis)

    def fresh(self, shape, kind=None):
        """A new operand of the given shape; kind chosen at random when None."""
        rng = self.rng
        kinds = ["act8", "act8", "acte4", "acte5", "plain", "plain"]
        if len(shape) >= 2 and shape[0] > 1 and shape[-1] > 1:
            kinds += ["w8a0", "w8a-1", "wf8a0", "wf8a-1", "w4", "w2"]
        kind = kind or kinds[rng.integers(len(kinds))]
        if kind == "plain":
            return self.randn(shape), kind
        if kind == "act8":
            return self.act(shape, "qint8"), kind
        if kind == "acte4":
            return self.act(shape, "qfloat8_e4m3fn"), kind
        if kind == "acte5":
            return self.act(shape, "qfloat8_e5m2"), kind
        if kind.startswith("w8"):
            return self.weight(shape, "qint8", 0 if kind.endswith("a0") else -1), kind
        if kind.startswith("wf8"):
            return self.weight(shape, ["qfloat8_e4m3fn", "qfloat8_e5m2"][rng.integers(2)],
                               0 if kind.endswith("a0") else -1), kind
        if kind in ("w4", "w2"):
            axis = int(rng.choice([0, -1]))
            per = int(np.prod(shape)) // shape[0 if axis == 0 else -1]
            divs = [d for d in range(1, per + 1) if per % d == 0]
            g = None if rng.random() < 0.5 else int(divs[rng.integers(len(divs))])
            return self.weight(shape, "qint4" if kind == "w4" else "qint2", axis, g), kind
        raise KeyError(kind)

    def partner(self, shape, kind=None):
        """A fresh operand that, one time in three, already carries state from an earlier rescaling (negative or
        non-unit scale), as an operand in the middle of a program would."""
        t, k = self.fresh(shape, kind)
        if hasattr(t, "qtype") and type(t).__name__ == "QBytesTensor" and self.rng.random() < 0.33:
            t = t * float(self.rng.choice([-1.0, -0.5, 2.0, -3.0]))
        return t, k

    def add(self, t, tag):
        if isinstance(t, torch.Tensor) and t.numel() <= 8192 and t.numel() > 0:
            self.items.append((t, tag))
            if len(self.items) > 24:
                self.items.pop(int(self.rng.integers(0, 6)))

    def pick(self, pred=None):
        c = [it for it in self.items if pred is None or pred(it[0])]
        if not c:
            return None
        return c[self.rng.integers(len(c))][0]

    def sibling(self, a, same_scale=None):
        """A quantized/plain tensor of a's shape: same-scale twin, different-scale twin or plain."""
        rng = self.rng
        shape = tuple(a.shape)
        r = rng.random() if same_scale is None else (0.1 if same_scale else 0.5)
        if hasattr(a, "qtype") and rng.random() < 0.15:
            # the operand itself, or a copy of it: identical scales whatever the axis (cat([x, x]), stack([x, x.clone()]))
            c = rng.integers(3)
            return a if c == 0 else (a.clone() if c == 1 else a.detach())
        if hasattr(a, "qtype") and getattr(a, "axis", 0) is None and r < 0.4 and type(a).__name__ == "QBytesTensor":
            qt = a.qtype
            if rng.random() < 0.35:
                # the same scale under another 8-bit qtype: codes of the two tensors do not share a grid
                others = [q for q in ("qint8", "qfloat8_e4m3fn", "qfloat8_e5m2") if self.oq.qtypes[q].dtype != a.qtype.dtype]
                qt = self.oq.qtypes[others[rng.integers(len(others))]]
            return self.oq.quantize_activation(self.randn(shape, mag=float(a._scale.abs()) * 60), qt,
                                               a._scale.detach().clone())
        if r < 0.7:
            return self.fresh(shape, ["act8", "acte4", "acte5"][rng.integers(3)])[0]
        if r < 0.85:
            return self.fresh(shape)[0]
        return self.randn(shape)


N_SCALAR_KINDS = 13


def scalar(rng, c=None):
    c = rng.integers(N_SCALAR_KINDS) if c is None else c
    v = float(np.exp(rng.uniform(math.log(0.1), math.log(8))))
    if c == 0:
        return int(rng.integers(2, 5))
    if c == 1:
        return -int(rng.integers(1, 4))
    if c == 2:
        return -v
    if c == 3:
        return torch.tensor(v)
    if c == 4:
        return torch.tensor(-v)
    if c == 8:
        return torch.tensor([v])  # a one-element tensor that is not 0-dim broadcasts like any tensor
    if c == 9:
        return torch.tensor([[-v]])
    if c == 10:
        return torch.tensor(v, dtype=torch.float64)  # a 0-dim tensor never promotes a tensor with dimensions
    if c == 11:
        return torch.tensor(int(rng.integers(2, 5)))  # 0-dim integer tensor
    if c == 12:
        return torch.tensor([v], dtype=torch.float64)  # dimensioned float64: the float program promotes
    return v


def anydim(rng, d, nd):
    """The same dimension written the way user code writes it half of the time (dim=-1, transpose(-1, -2), ...)."""
    return d - nd if nd > 0 and rng.random() < 0.45 else d


def factorizations(n, rng):
    """A random shape with the same numel."""
    fs = []
    m = n
    while m > 1 and len(fs) < 3 and rng.random() < 0.7:
        divs = [d for d in range(2, m + 1) if m % d == 0]
        d = int(divs[rng.integers(len(divs))])
        fs.append(d)
        m //= d
    fs.append(m)
    perm = rng.permutation(len(fs))
    return tuple(int(fs[i]) for i in perm)


# Each template: name -> callable(pool, a) returning a zero-arg thunk (the real call). `a` is the primary operand.
def templates():
    T = {}

    def reg(name):
        def deco(f):
            T[name] = f
            return f

        return deco

    # ---- views / data movement
    @reg("view_flat")
    def _(p, a):
        return lambda: a.view(-1)

    @reg("view_shape")
    def _(p, a):
        sh = factorizations(a.numel(), p.rng)
        return lambda: a.view(*sh)

    @reg("reshape")
    def _(p, a):
        sh = factorizations(a.numel(), p.rng)
        return lambda: a.reshape(sh)

    @reg("torch.reshape")
    def _(p, a):
        sh = factorizations(a.numel(), p.rng)
        return lambda: torch.reshape(a, sh)

    @reg("flatten")
    def _(p, a):
        s = anydim(p.rng, int(p.rng.integers(0, max(1, a.ndim))), a.ndim)
        return lambda: a.flatten(s)

    @reg("unsqueeze")
    def _(p, a):
        d = int(p.rng.integers(-a.ndim - 1, a.ndim + 1))
        return lambda: a.unsqueeze(d)

    @reg("squeeze")
    def _(p, a):
        sd = anydim(p.rng, int(p.rng.integers(0, max(1, a.ndim))), a.ndim)
        return (lambda: a.squeeze()) if p.rng.random() < 0.5 else (lambda: a.squeeze(sd))

    @reg("transpose")
    def _(p, a):
        i, j = (anydim(p.rng, int(v), a.ndim) for v in p.rng.integers(0, max(1, a.ndim), 2))
        return lambda: a.transpose(i, j)

    @reg("t")
    def _(p, a):
        return lambda: a.t()

    @reg("permute")
    def _(p, a):
        perm = tuple(int(v) for v in p.rng.permutation(a.ndim))
        return lambda: a.permute(perm)

    @reg("select")
    def _(p, a):
        d = int(p.rng.integers(0, max(1, a.ndim)))
        i = int(p.rng.integers(0, max(1, a.shape[d] if a.ndim else 1)))
        if a.ndim and p.rng.random() < 0.3:
            i -= a.shape[d]  # negative index
        d = anydim(p.rng, d, a.ndim)
        return lambda: a.select(d, i)

    @reg("getitem_int")
    def _(p, a):
        i = int(p.rng.integers(0, max(1, a.shape[0] if a.ndim else 1)))
        if a.ndim and p.rng.random() < 0.3:
            i -= a.shape[0]
        return lambda: a[i]

    @reg("getitem_slice")
    def _(p, a):
        c = p.rng.integers(4)
        if c == 0:
            return lambda: a[1:]
        if c == 1:
            return lambda: a[::2]
        if c == 2:
            return lambda: a[..., : max(1, a.shape[-1] // 2)]
        return lambda: a[:, 0:1] if a.ndim >= 2 else a[0:1]

    @reg("getitem_index")
    def _(p, a):
        idx = torch.from_numpy(p.rng.integers(0, max(1, a.shape[0] if a.ndim else 1), size=3))
        return lambda: a[idx]

    @reg("index_select")
    def _(p, a):
        d = int(p.rng.integers(0, max(1, a.ndim)))
        idx = torch.from_numpy(p.rng.integers(0, max(1, a.shape[d] if a.ndim else 1), size=2))
        d = anydim(p.rng, d, a.ndim)
        return lambda: a.index_select(d, idx)

    @reg("expand")
    def _(p, a):
        k = int(p.rng.integers(2, 4))
        return lambda: a.unsqueeze(0).expand(k, *a.shape)

    @reg("expand_size1")
    def _(p, a):
        sh = list(a.shape)
        ones = [i for i, s in enumerate(sh) if s == 1]
        if ones:
            sh[ones[0]] = 3
        return lambda: a.expand(*sh)

    @reg("cat2")
    def _(p, a):
        b = p.sibling(a)
        if hasattr(a, "qtype") and getattr(a, "axis", None) is not None and p.rng.random() < 0.35:
            b = a.clone() if p.rng.random() < 0.5 else a  # identical per-axis scales, every dim (the kept axis included)
        d = anydim(p.rng, int(p.rng.integers(0, max(1, a.ndim))), a.ndim)
        return lambda: torch.cat([a, b], dim=d)

    @reg("cat3")
    def _(p, a):
        b, c = p.sibling(a), p.sibling(a, same_scale=True)
        d = anydim(p.rng, int(p.rng.integers(0, max(1, a.ndim))), a.ndim)
        return lambda: torch.cat([a, b, c], dim=d)

    @reg("stack2")
    def _(p, a):
        b = p.sibling(a)
        d = anydim(p.rng, int(p.rng.integers(0, a.ndim + 1)), a.ndim + 1)
        return lambda: torch.stack([a, b], dim=d)

    @reg("stack3")
    def _(p, a):
        b, c = p.sibling(a, same_scale=True), p.sibling(a, same_scale=True)
        return lambda: torch.stack([a, b, c])

    @reg("split")
    def _(p, a):
        d = int(p.rng.integers(0, max(1, a.ndim)))
        k = int(p.rng.integers(1, max(2, (a.shape[d] if a.ndim else 1))))
        d = anydim(p.rng, d, a.ndim)
        return lambda: a.split(k, dim=d)

    @reg("chunk")
    def _(p, a):
        d = anydim(p.rng, int(p.rng.integers(0, max(1, a.ndim))), a.ndim)
        return lambda: a.chunk(2, dim=d)

    @reg("clone")
    def _(p, a):
        return lambda: a.clone()

    @reg("detach")
    def _(p, a):
        return lambda: a.detach()

    @reg("contiguous")
    def _(p, a):
        return lambda: a.contiguous()

    @reg("to_dtype")
    def _(p, a):
        dt = [torch.float32, torch.float16, torch.bfloat16][p.rng.integers(3)]
        return lambda: a.to(dt)

    @reg("to_cpu")
    def _(p, a):
        return (lambda: a.to("cpu")) if p.rng.random() < 0.5 else (lambda: a.cpu())

    @reg("to_copy")
    def _(p, a):
        if a.ndim == 4 and p.rng.random() < 0.5:
            # memory-format moves of image-like tensors (what model.to(memory_format=channels_last) applies to weights)
            if p.rng.random() < 0.5:
                return lambda: a.to(memory_format=torch.channels_last)
            return lambda: a.contiguous(memory_format=torch.channels_last)
        c = p.rng.integers(3)
        if c == 0:
            return lambda: a.to("cpu", copy=True)
        if c == 1:
            return lambda: a.to(a.dtype, copy=True)
        return lambda: a.to(device="cpu", dtype=a.dtype, copy=True)

    @reg("copy_")
    def _(p, a):
        c = p.rng.integers(4)
        if c == 3 and hasattr(a, "qtype") and type(a).__name__ == "QBytesTensor" and a.axis is None:
            # copy a differently scaled tensor of the same qtype into a clone: the clone's source must not change
            dest = a.clone()
            src = p.oq.quantize_activation(p.randn(tuple(a.shape), mag=float(a._scale.abs()) * 300), a.qtype,
                                           (a._scale.detach() * 3.0).clone())
            return lambda: dest.copy_(src)
        if c == 0 and hasattr(a, "qtype"):
            dest = p.sibling(a, same_scale=True)
            return lambda: dest.copy_(a)
        if c == 1:
            dest = p.randn(tuple(a.shape))
            return lambda: dest.copy_(a)
        src = p.randn(tuple(a.shape))
        dest = a.clone()
        return lambda: dest.copy_(src)

    # ---- rescaling
    @reg("mul_scalar")
    def _(p, a):
        s = scalar(p.rng)
        return (lambda: a * s) if p.rng.random() < 0.6 else (lambda: s * a)

    @reg("torch.mul_scalar")
    def _(p, a):
        s = scalar(p.rng)
        return lambda: torch.mul(a, s)

    @reg("div_scalar")
    def _(p, a):
        s = scalar(p.rng)
        return lambda: a / s

    @reg("neg")
    def _(p, a):
        return (lambda: -a) if p.rng.random() < 0.5 else (lambda: torch.neg(a))

    # ---- elementwise with tensors
    @reg("mul_tensor")
    def _(p, a):
        b = p.sibling(a)
        return lambda: a * b

    @reg("div_tensor")
    def _(p, a):
        b = p.randn(tuple(a.shape)).abs() + 0.5
        return (lambda: a / b) if p.rng.random() < 0.6 else (lambda: b / a)

    @reg("div_qq")
    def _(p, a):
        b = p.sibling(a)
        return lambda: a / b

    @reg("add")
    def _(p, a):
        b = p.sibling(a)
        return (lambda: a + b) if p.rng.random() < 0.7 else (lambda: a + 1.5)

    @reg("sub")
    def _(p, a):
        b = p.sibling(a)
        return (lambda: a - b) if p.rng.random() < 0.7 else (lambda: 2.0 - a)

    # ---- activations / pass-through
    @reg("relu")
    def _(p, a):
        return (lambda: F.relu(a)) if p.rng.random() < 0.5 else (lambda: torch.relu(a))

    @reg("softmax")
    def _(p, a):
        d = int(p.rng.integers(-max(1, a.ndim), max(1, a.ndim)))
        return (lambda: F.softmax(a, dim=d)) if p.rng.random() < 0.5 else (lambda: torch.softmax(a, d))

    for nm, fn in [("gelu", F.gelu), ("sigmoid", torch.sigmoid), ("tanh", torch.tanh), ("silu", F.silu), ("abs", torch.abs)]:
        def mk(fn):
            return lambda p, a: (lambda: fn(a))

        T[nm] = mk(fn)

    @reg("exp")
    def _(p, a):
        return lambda: torch.exp(a * 0.01)

    @reg("log_softmax")
    def _(p, a):
        return lambda: F.log_softmax(a, dim=-1)

    @reg("sum")
    def _(p, a):
        return (lambda: a.sum()) if p.rng.random() < 0.4 else (lambda: a.sum(dim=anydim(p.rng, int(p.rng.integers(0, max(1, a.ndim))), a.ndim)))

    @reg("mean")
    def _(p, a):
        return lambda: a.mean(dim=-1)

    @reg("amax")
    def _(p, a):
        return lambda: a.amax(dim=0)

    @reg("layer_norm")
    def _(p, a):
        return lambda: F.layer_norm(a, a.shape[-1:])

    @reg("cosine_similarity")
    def _(p, a):
        b = p.sibling(a)
        return lambda: F.cosine_similarity(a, b, dim=-1)

    @reg("topk")
    def _(p, a):
        return lambda: torch.topk(a, 1)

    @reg("pad")
    def _(p, a):
        return lambda: F.pad(a, (1, 1))

    @reg("cross_entropy")
    def _(p, a):
        tgt = torch.from_numpy(p.rng.integers(0, max(1, a.shape[-1]), size=(a.shape[0],))) if a.ndim == 2 else None
        return lambda: F.cross_entropy(a, tgt)

    # ---- wide pools: everything else the dispatch monitor knows how to judge, dims written both ways
    @reg("pool_move")
    def _(p, a):
        r = p.rng
        nd = max(1, a.ndim)
        d = int(r.integers(0, nd))
        n = a.shape[d] if a.ndim else 1
        dd, d2 = anydim(r, d, a.ndim), anydim(r, int(r.integers(0, nd)), a.ndim)
        s0 = int(r.integers(0, max(1, n)))
        ln = int(r.integers(1, max(2, n - s0 + 1)))
        idx = torch.zeros(tuple(a.shape), dtype=torch.int64)
        mask = torch.as_tensor(np.asarray(r.random(tuple(a.shape)) < 0.5))
        fl = torch.from_numpy(r.integers(0, max(1, a.numel()), size=3))
        progs = [
            ("narrow", lambda: a.narrow(dd, s0, ln)), ("unbind", lambda: a.unbind(dd)), ("view_as", lambda: a.view_as(torch.empty(a.shape))),
            ("reshape_as", lambda: a.reshape_as(torch.empty(a.numel()))), ("unflatten", lambda: a.unflatten(dd, (1, n))),
            ("movedim", lambda: a.movedim(dd, d2)), ("swapaxes", lambda: a.swapaxes(dd, d2)), ("concat", lambda: torch.concat([a, a], dd)),
            ("mT", lambda: a.mT), ("T", lambda: a.T if a.ndim == 2 else a.mT), ("tensor_split", lambda: a.tensor_split(2, dd)),
            ("repeat", lambda: a.repeat(*([2] + [1] * (a.ndim - 1)))), ("tile", lambda: a.tile((2,))), ("flip", lambda: a.flip(dd)),
            ("roll", lambda: a.roll(1, dd)), ("gather", lambda: a.gather(dd, idx)), ("take", lambda: a.take(fl)),
            ("masked_select", lambda: a.masked_select(mask)), ("diagonal", lambda: a.diagonal()), ("tril", lambda: a.tril()),
            ("triu", lambda: a.triu()), ("expand_as", lambda: a.unsqueeze(0).expand_as(torch.empty((2,) + tuple(a.shape)))),
            ("hsplit", lambda: a.hsplit(1)), ("vsplit", lambda: a.vsplit(1)),
            # wrappers rebuilt around the same inner tensors
            ("parameter", lambda: torch.nn.Parameter(a, requires_grad=False)), ("data", lambda: a.data),
            ("detach_twice", lambda: a.detach().detach()), ("alias", lambda: torch.ops.aten.alias(a)),
        ]
        name, f = progs[int(r.integers(len(progs)))]
        p.note = name
        return f

    @reg("pool_pass")
    def _(p, a):
        r = p.rng
        nd = max(1, a.ndim)
        dd = anydim(r, int(r.integers(0, nd)), a.ndim)
        b = p.sibling(a)
        progs = [
            ("sigmoid", lambda: torch.sigmoid(a)), ("gelu", lambda: F.gelu(a)), ("silu", lambda: F.silu(a)), ("tanh", lambda: torch.tanh(a)),
            ("abs", lambda: a.abs()), ("amin", lambda: a.amin(dd)), ("max", lambda: a.max()), ("max_dim", lambda: a.max(dd)),
            ("min", lambda: a.min(dd)), ("clamp", lambda: a.clamp(-0.5, 0.5)), ("square", lambda: a.square()), ("pow", lambda: a ** 2),
            ("norm", lambda: a.norm()), ("var", lambda: a.var()), ("std", lambda: a.std(dd)), ("argmax", lambda: a.argmax(dd)),
            ("argmin", lambda: a.argmin()), ("sort", lambda: a.sort(dd, stable=True)), ("isfinite", lambda: torch.isfinite(a)),
            ("isnan", lambda: torch.isnan(a)), ("sin", lambda: torch.sin(a)), ("cos", lambda: a.cos()), ("erf", lambda: torch.erf(a)),
            ("hardtanh", lambda: F.hardtanh(a)), ("leaky_relu", lambda: F.leaky_relu(a)), ("elu", lambda: F.elu(a)),
            ("dropout", lambda: F.dropout(a, 0.5, training=False)), ("maximum", lambda: torch.maximum(a, b)),
            ("minimum", lambda: torch.minimum(b, a)), ("cumsum", lambda: a.cumsum(dd)), ("any", lambda: a.any()), ("all", lambda: a.all()),
            ("sign", lambda: a.sign()), ("floor", lambda: a.floor()), ("ceil", lambda: a.ceil()), ("round", lambda: a.round()),
            ("mse_loss", lambda: F.mse_loss(a, b)), ("l1_loss", lambda: F.l1_loss(a, b)), ("softplus", lambda: F.softplus(a)),
            ("hardswish", lambda: F.hardswish(a)), ("hardsigmoid", lambda: F.hardsigmoid(a)), ("mish", lambda: F.mish(a)),
            ("logsumexp", lambda: a.logsumexp(dd)), ("normalize", lambda: F.normalize(a, dim=dd)), ("rms_norm", lambda: F.rms_norm(a, a.shape[-1:])),
            ("avg_pool2d", lambda: F.avg_pool2d(a, 1)), ("max_pool2d", lambda: F.max_pool2d(a, 1)),
            ("adaptive_avg_pool2d", lambda: F.adaptive_avg_pool2d(a, 1)), ("equal", lambda: torch.equal(a, a)),
            ("allclose", lambda: torch.allclose(a, b)), ("numel", lambda: a.numel()), ("eq", lambda: a == b), ("ne", lambda: a != b),
            ("ge", lambda: a >= b), ("le", lambda: a <= 0), ("prod", lambda: a.prod(dd)), ("amax_neg", lambda: a.amax(dd)),
            ("mean_dim", lambda: a.mean(dd)), ("sum_keep", lambda: a.sum(dd, keepdim=True)),
        ]
        name, f = progs[int(r.integers(len(progs)))]
        p.note = name
        return f

    @reg("pool_contract")
    def _(p, a):
        r = p.rng
        k = a.shape[-1] if a.ndim else 1
        m = int(r.integers(1, 6))
        w = p.randn((k, m))
        v = p.randn((k,))
        bias = p.randn((m,))
        progs = [
            ("einsum", lambda: torch.einsum("...k,km->...m", a, w)), ("addmm", lambda: torch.addmm(bias, a, w)),
            ("mv", lambda: torch.mv(a, v)), ("inner", lambda: torch.inner(a, w.t())), ("dot", lambda: torch.dot(a.reshape(-1), a.reshape(-1))),
            ("rmatmul", lambda: w.t() @ a.transpose(-1, -2) if a.ndim >= 2 else w.t() @ a),
            ("baddbmm", lambda: torch.baddbmm(torch.zeros(a.shape[0], a.shape[1], m, dtype=a.dtype), a, w.expand(a.shape[0], k, m))),
        ]
        name, f = progs[int(r.integers(len(progs)))]
        p.note = name
        return f

    # ---- where / comparisons
    @reg("where")
    def _(p, a):
        cond = torch.as_tensor(np.asarray(p.rng.random(tuple(a.shape)) < 0.5))
        lim = float(a.dequantize().abs().max()) if hasattr(a, "qtype") else float(a.abs().max())
        c = p.rng.integers(4)
        if c == 0:
            other = (torch.as_tensor(np.asarray(p.rng.uniform(-1, 1, tuple(a.shape))), dtype=torch.float32) * lim).to(a.dtype)
            return lambda: torch.where(cond, a, other)
        if c == 1:
            # a quantized (or plain) replacement whose values stay inside the quantized operand's range
            vals = (torch.as_tensor(np.asarray(p.rng.uniform(-1, 1, tuple(a.shape))), dtype=torch.float32) * lim).to(a.dtype)
            qtn = ["qint8", "qfloat8_e4m3fn", "qfloat8_e5m2", None][p.rng.integers(4)]
            other = vals if qtn is None else p.act(tuple(a.shape), qtn, x=vals)
            if qtn is not None and float(other.dequantize().abs().max()) > lim:
                other = vals  # its own grid rounded a value beyond the range of `a`: that would saturate
            return lambda: torch.where(cond, a, other)
        if c == 2:
            other = p.randn(tuple(a.shape))
            return lambda: torch.where(cond, other, a)
        return lambda: torch.where(a, a, a)  # quantized condition: documented refusal

    @reg("lt")
    def _(p, a):
        c = p.rng.integers(5)
        if c == 4 and hasattr(a, "qtype") and type(a).__name__ == "QBytesTensor":
            # both operands went through the same rescaling (a common scalar, possibly negative) or the same negation:
            # identical scales again, but not the ones the tensors were quantized with
            b = p.sibling(a, same_scale=True)
            k = float(p.rng.choice([-1.0, -0.5, -4.0, 2.0]))
            how = p.rng.integers(3)
            if how == 0:
                a2, b2 = a * k, (b * k if hasattr(b, "qtype") else b)
            elif how == 1:
                a2, b2 = a / k, (b / k if hasattr(b, "qtype") else b)
            else:
                a2, b2 = -a, (-b if hasattr(b, "qtype") else b)
            op = p.rng.integers(3)
            return (lambda: a2 < b2) if op == 0 else ((lambda: torch.lt(a2, b2)) if op == 1 else (lambda: a2 > b2))
        if c == 0:
            b = p.sibling(a, same_scale=True)
            return lambda: a < b
        if c == 1:
            b = p.sibling(a, same_scale=False)
            return lambda: torch.lt(a, b)
        if c == 2:
            b = p.randn(tuple(a.shape))
            return lambda: a < b
        return lambda: a < 0.1

    @reg("eq_gt")
    def _(p, a):
        b = p.sibling(a, same_scale=True)
        return (lambda: a == b) if p.rng.random() < 0.5 else (lambda: a > b)

    # ---- contractions
    @reg("matmul")
    def _(p, a):
        n = int(SIZES[p.rng.integers(len(SIZES))])
        if a.ndim == 1:
            b, _k = p.partner((a.shape[0], n))
        else:
            b, _k = p.partner(tuple(a.shape[:-2]) + (a.shape[-1], n)) if p.rng.random() < 0.5 else p.partner((a.shape[-1], n))
        c = p.rng.integers(3)
        if c == 0:
            return lambda: a @ b
        if c == 1:
            return lambda: torch.matmul(a, b)
        return lambda: torch.mm(a, b) if a.ndim == 2 and b.ndim == 2 else torch.matmul(a, b)

    @reg("bmm")
    def _(p, a):
        n = int(SIZES[p.rng.integers(len(SIZES))])
        b, _k = p.partner((a.shape[0], a.shape[-1], n), ["act8", "acte4", "plain", "w8a0", "w8a-1"][p.rng.integers(5)])
        return lambda: torch.bmm(a, b)

    @reg("linear")
    def _(p, a):
        out_f = int(SIZES[p.rng.integers(len(SIZES))])
        in_f = a.shape[-1]
        kinds = ["w8a0", "w8a0", "wf8a0", "w4", "w2", "act8", "plain", "w8a-1", "wf8a-1"]
        kind = kinds[p.rng.integers(len(kinds))]
        if kind.endswith("a-1") and p.rng.random() < 0.5:
            out_f = in_f  # square: as many scales along the contraction as there are output features
        if out_f == 1 or in_f == 1:
            kind = "act8" if kind.startswith("w") else kind
        if kind in ("w4", "w2"):
            w = p.weight((out_f, in_f), "qint4" if kind == "w4" else "qint2", 0,
                         None if p.rng.random() < 0.5 or in_f % 2 else in_f // 2)
        else:
            w, _k = p.partner((out_f, in_f), kind)
        bias = p.randn((out_f,)) if p.rng.random() < 0.5 else None
        # the same call spelled with keywords, as torch documents it: linear(input, weight, bias=None)
        sp = p.rng.random()
        if sp < 0.15:
            return lambda: F.linear(a, weight=w, bias=bias)
        if sp < 0.3:
            return lambda: F.linear(input=a, weight=w, bias=bias)
        if sp < 0.4:
            return lambda: F.linear(a, w, bias=bias)
        return lambda: F.linear(a, w, bias)

    @reg("linear_reused_weight")
    def _(p, a):
        # the same weight object serves several calls and is overwritten in place in between (swapping frozen weights,
        # averaging checkpoints): the second call must use what the weight holds now
        out_f = int(SIZES[p.rng.integers(len(SIZES))])
        in_f = a.shape[-1]
        kind = ["w8a0", "wf8a0", "w8a0", "act8"][p.rng.integers(4)]
        if out_f == 1 or in_f == 1:
            kind = "act8"
        w, _k = p.partner((out_f, in_f), kind)
        w2, _k = p.partner((out_f, in_f), kind)
        bias = p.randn((out_f,)) if p.rng.random() < 0.5 else None

        def prog():
            F.linear(a, w, bias)
            w.copy_(w2)
            return F.linear(a, w, bias)
        return prog

    @reg("linear_rev")
    def _(p, a):
        # a is the weight, a fresh activation is the input
        if a.ndim != 2:
            return lambda: F.linear(a, a)
        xk = ["act8", "acte4", "acte5", "plain"][p.rng.integers(4)]
        if xk == "plain" and p.rng.random() < 0.4:
            # large float activations: the product with the (small) dequantized weight is representable, a sum taken in
            # raw code units before the weight scale is applied may not be in half precision
            x = p.randn((int(p.rng.integers(1, 20)), a.shape[1]), mag=float(p.rng.choice([100.0, 400.0])))
        else:
            x, _k = p.fresh((int(p.rng.integers(1, 20)), a.shape[1]), xk)
        return lambda: F.linear(x, a)

    @reg("conv2d")
    def _(p, a):
        if a.ndim != 4:
            return lambda: torch.conv2d(a, a)
        cout = int(p.rng.integers(1, 5))
        w, _k = p.fresh((cout, a.shape[1], 1, 1) if min(a.shape[2:]) < 3 else (cout, a.shape[1], 3, 3),
                        ["act8", "plain", "acte4"][p.rng.integers(3)])
        return lambda: torch.conv2d(a, w)

    @reg("mm_int_route")
    def _(p, a):
        # operands sized for the integer GEMM route (rows > 16, every size a multiple of 8), per-tensor or per-axis on
        # either side - scales varying along the contraction included
        n, m, q_ = int(p.rng.choice([24, 32, 40])), int(p.rng.choice([8, 16, 32])), int(p.rng.choice([8, 16, 24]))
        kinds = ["act8", "w8a0", "w8a-1", "acte4", "wf8a0", "wf8a-1", "plain"]
        lk = kinds[p.rng.integers(5 if p.rng.random() < 0.7 else len(kinds))]
        rk = kinds[p.rng.integers(5 if p.rng.random() < 0.7 else len(kinds))]
        left, _k1 = p.fresh((n, m), lk)
        right, _k2 = p.fresh((m, q_), rk)
        if not hasattr(left, "qtype") and not hasattr(right, "qtype"):
            left, _k1 = p.fresh((n, m), "act8")
        v = p.rng.random()
        try:
            if v < 0.2 and lk in ("act8", "acte4", "plain"):
                left = p.fresh((n, 2 * m), lk)[0][:, :m]  # a range of columns: dense rows, larger row stride
            elif v < 0.35 and rk in ("act8", "acte4", "plain"):
                right = p.fresh((m, 2 * q_), rk)[0][:, q_:]
            elif v < 0.45 and lk in ("act8", "acte4", "plain"):
                left = p.fresh((1, m), lk)[0].expand(n, m)
        except Exception:
            pass
        c = p.rng.integers(3)
        if c == 0:
            return lambda: torch.mm(left, right)
        if c == 1:
            return lambda: torch.matmul(left, right)
        return lambda: left @ right

    @reg("to_other_dtype")
    def _(p, a):
        # always a real dtype change: refused (ValueError) for packed low-bit tensors, a rescale for 8-bit ones
        others = [d for d in (torch.float32, torch.float16, torch.bfloat16) if d != a.dtype]
        dt = others[p.rng.integers(len(others))]
        c = p.rng.integers(3)
        if c == 0:
            return lambda: a.to(dt)
        if c == 1:
            return lambda: a.to(dtype=dt)
        return lambda: a.type(dt)

    # ---- in-place arithmetic: on a fresh quantized copy (the destination itself is judged) and on a float destination
    # that takes a quantized operand (residual adds, gating, masked updates)
    def small(p, a):
        return p.sibling(a) if p.rng.random() < 0.5 else p.randn(tuple(a.shape))

    @reg("inplace_qdest")
    def _(p, a):
        if not hasattr(a, "qtype"):
            return lambda: a
        d = a.clone()
        s = scalar(p.rng)
        if isinstance(s, torch.Tensor) and s.ndim > 0 and a.ndim == 0:
            s = float(s.reshape(-1)[0])
        c = int(p.rng.integers(14))
        if c == 0:
            return lambda: (d.mul_(s), d)[1]
        if c == 1:
            return lambda: (d.div_(s), d)[1]
        if c == 2:
            o = small(p, a)
            return lambda: (d.add_(o), d)[1]
        if c == 3:
            return lambda: (d.sub_(s), d)[1]
        if c == 4:
            return lambda: (d.neg_(), d)[1]
        if c == 5:
            m = float(abs(s if not isinstance(s, torch.Tensor) else float(s.reshape(-1)[0])))
            return lambda: (d.clamp_(-m, m), d)[1]
        if c == 6:
            return lambda: (d.zero_(), d)[1]
        if c == 7:
            v = float(s if not isinstance(s, torch.Tensor) else float(s.reshape(-1)[0]))
            return lambda: (d.fill_(v), d)[1]
        if c == 8:
            mask = torch.from_numpy(p.rng.random(tuple(a.shape)) < 0.4)
            return lambda: (d.masked_fill_(mask, 0.0), d)[1]
        if c == 9:
            def f():
                x = d
                x *= s
                return d
            return f
        if c == 10:
            def f():
                x = d
                x /= s
                return d
            return f
        if c == 11:
            o = small(p, a)

            def f():
                x = d
                x += o
                return d
            return f
        if c == 12 and a.ndim >= 1 and a.shape[0] >= 1:
            o = small(p, a)

            def f():
                d[0] = o[0]
                return d
            return f
        return lambda: (torch.nn.functional.relu(d, inplace=True), d)[1]

    @reg("inplace_fdest")
    def _(p, a):
        f0 = p.randn(tuple(a.shape))
        c = int(p.rng.integers(8))
        if c == 0:
            return lambda: f0.add_(a)
        if c == 1:
            return lambda: f0.mul_(a)
        if c == 2:
            return lambda: f0.sub_(a)
        if c == 3:
            def f():
                x = f0
                x += a
                return f0
            return f
        if c == 4:
            def f():
                x = f0
                x *= a
                return f0
            return f
        if c == 5 and a.ndim >= 1 and a.shape[0] >= 1:
            def f():
                f0[0] = a[0]
                return f0
            return f
        if c == 6:
            al = float(p.rng.uniform(0.1, 2.0))
            return lambda: f0.add_(a, alpha=al)
        return lambda: f0.addcmul_(a, small(p, a))

    return T


TEMPLATES = templates()
SHAPE_OPS = {"view_flat", "view_shape", "reshape", "torch.reshape", "flatten", "unsqueeze", "squeeze", "transpose", "t",
             "permute", "select", "getitem_int", "getitem_slice", "getitem_index", "index_select", "expand", "expand_size1",
             "cat2", "cat3", "stack2", "stack3", "split", "chunk"}
MOVE_OPS = {"clone", "detach", "contiguous", "to_dtype", "to_other_dtype", "to_cpu", "to_copy", "copy_"}
