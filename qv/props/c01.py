"""C01 — 8-bit symmetric quantization is a nearest-grid-point projection (DESIGN.md section 4, C01)."""

import numpy as np
import torch

from qv import fp, gen, num, oracles

F64 = torch.float64

META = dict(
    level="exploration",
    shards={"quick": 6, "thorough": 16},
    watchdog_s={"quick": 900, "thorough": 3600},
    evaluations_counter="cases",
    min={"elements_judged": 1_000_000, "idempotence_elements": 100_000, "calls:quantize_activation": 20,
         "calls:SymmetricQuantizer.apply": 20},
    anchors=["tensor/qactivation.py:quantize_activation",
             "tensor/quantizers/symmetric.py:SymmetricQuantizer.forward",
             "tensor/qbytes.py:QBytesDequantizer.forward"],
    rule="case = (dtype, qtype, entry point, axis, scale recipe, shape/layout) over the complete finite "
         "float16/bfloat16 value space, boundary-directed float32 points (every grid point, every rounding mid-point "
         "+-{0,1,2,8} ulp, end points, beyond range, subnormals) and random float32 bit patterns; non-trivial when the "
         "tensor has >=1 saturating element, >=1 interior element and >=1 element within 2 ulp of a rounding mid-point; "
         "distinct by (dtype,qtype,entry,axis,recipe,shape,layout)",
    exhaustive_note="all finite float16 (63488) and bfloat16 (65280) bit patterns are enumerated in every "
                    "(qtype, scale, axis) configuration of the run; scales are sampled",
    assumptions=["torch widening casts to float64 are exact", "scales are finite positive numbers of the source "
                 "dtype, subnormal ones included", "an element is judged only if its two neighbouring grid points are finite in the "
                 "working dtype (C16 owns the extremes)"],
)

STORAGE = {"qint8": torch.int8, "qfloat8_e4m3fn": torch.float8_e4m3fn, "qfloat8_e5m2": torch.float8_e5m2}


def midpoints(table):
    return (table[1:] + table[:-1]) / 2


def scalar_scales(rng, V, wd, storage, n_rand):
    """(recipe name, python float) scales: finite positive normal numbers of wd."""
    table = num.code_table(storage)
    qmax = float(table[-1])
    fi = torch.finfo(wd)
    out = []
    emin = int(np.log2(fi.smallest_normal))
    emax = int(np.floor(np.log2(fi.max)))
    ks = sorted(set([emin, emin // 2, -8, -3, 0, 4, emax // 2, min(emax - 8, 100)]))
    for k in ks:
        out.append((f"2^{k}", 2.0 ** k))
    absV = V.abs().to(F64)
    out.append(("absmax/qmax", float(absV.max()) / qmax))
    for p in (0.01, 0.5, 0.99):
        # scale that saturates a fraction p of the values
        kth = float(torch.quantile(absV[::7], 1 - p))
        out.append((f"saturate{int(p * 100)}%", max(kth / qmax, fi.smallest_normal)))
    for i in range(n_rand):
        m = 1.0 + float(rng.random())
        k = int(rng.integers(emin + 1, min(emax - 7, 40)))
        out.append((f"rand{i}", m * 2.0 ** k))
    # subnormal scales are finite positive scales too (their reciprocal overflows the dtype)
    tiny = fi.smallest_normal * fi.eps
    for name, s in (("subnormal_min", tiny), ("subnormal_3x", 3 * tiny), ("subnormal_mid", fi.smallest_normal / 8),
                    ("subnormal_big", fi.smallest_normal * (1 - fi.eps))):
        out.append((name, s))
    res = []
    for name, s in out:
        sv = torch.tensor(s, dtype=F64).to(wd)
        if torch.isfinite(sv) and float(sv) > 0:
            res.append((name, sv))
    return res


def boundary_points_f32(storage, s):
    """float32 points aimed at every decision of the quantizer for scale s (python float)."""
    table = num.code_table(storage)
    mids = midpoints(table)
    s64 = torch.tensor(s, dtype=F64)
    pts = [s64 * table]
    base = (s64 * mids).to(torch.float32)
    ib = base.view(torch.int32)
    for k in (0, 1, -1, 2, -2, 8, -8):
        pts.append((ib + k).view(torch.float32).to(F64))
    ends = (s64 * table[[0, -1]]).to(torch.float32).view(torch.int32)
    for k in (-2, -1, 1, 2, 64):
        pts.append((ends + k).view(torch.float32).to(F64))
    pts.append(s64 * table[[0, -1]] * 2)
    pts.append(s64 * table[[0, -1]] * 1e3)
    pts.append(torch.tensor([0.0, -0.0, 1e-45, -1e-45, 1e-40, 1.1754944e-38, 3.4e38, -3.4e38], dtype=F64))
    x = torch.cat(pts).to(torch.float32)
    return x[torch.isfinite(x)]


def judge(ctx, x, qtn, storage, scale, axis, entry, recipe, layout, qtypes, fn_act, SQ):
    """Run one quantization and all C01 oracles."""
    qt = qtypes[qtn]

    def call(inp):
        if entry == "quantize_activation":
            ctx.count("calls:quantize_activation")
            return fn_act(inp, qt, scale)
        ctx.count("calls:SymmetricQuantizer.apply")
        return SQ.apply(inp, qt, axis, scale)

    desc = dict(dtype=str(x.dtype), qtype=qtn, entry=entry, axis=axis, recipe=recipe, shape=list(x.shape),
                layout=layout)
    if not ctx.case(desc):
        return
    xb, sb = fp.plain_bytes(x), fp.plain_bytes(scale)
    try:
        q = call(x)
    except Exception as e:
        ctx.violation(dict(kind="raises", exc=type(e).__name__, entry=entry, qtype=qtn, dtype=str(x.dtype),
                           axis=axis), dict(msg=str(e)[:300], desc=desc))
        return
    if fp.plain_bytes(x) != xb or fp.plain_bytes(scale) != sb:
        # the oracle below would silently judge against the modified source
        ctx.violation(dict(kind="source_or_scale_modified", entry=entry, qtype=qtn, dtype=str(x.dtype)), dict(desc=desc))
        return
    stats, idem = {}, {}
    fails = oracles.check_symmetric(x, storage, scale, q, requant=call, stats=stats, idem=idem)
    ctx.count("elements_judged", stats.get("judged", 0))
    ctx.count("elements", stats.get("elements", 0))
    ctx.count("idempotence_elements", idem.get("n", 0))
    if "max_excess_over_tol" in stats:
        ctx.maxstat("optimality_excess/tol", stats["max_excess_over_tol"])
    want_axis = -1 if (axis is not None and axis == x.ndim - 1) else axis  # documented alias of the last axis
    mf = oracles.check_meta(q, expect_qtype=qtn, expect_axis=want_axis, deq=False)
    for f in mf:
        f["kind"] = "meta:" + f["kind"]
    for f in fails + mf:
        ctx.violation(dict(kind=f["kind"], qtype=qtn, dtype=str(x.dtype), axis=axis, entry=entry),
                      dict(fail=f, desc=desc))
    # non-triviality
    table = num.code_table(storage)
    X = x.to(F64)
    Q = X / scale.to(F64)
    sat = (Q.abs() > float(table[-1])).any()
    interior = (Q.abs() < float(table[-1])).any()
    mids = midpoints(table)
    qq = Q.reshape(-1)[:: max(1, Q.numel() // 20000)].contiguous()
    j = torch.searchsorted(mids, qq).clamp(max=mids.numel() - 1)
    near = ((qq - mids[j]).abs() <= 2 * num.ulp(qq, x.dtype)).any() | \
           ((qq - mids[(j - 1).clamp(min=0)]).abs() <= 2 * num.ulp(qq, x.dtype)).any()
    if bool(sat) and bool(interior) and bool(near):
        ctx.nontrivial(str(x.dtype), qtn, entry, axis, recipe, tuple(x.shape), layout)
    ctx.see("qtypes", qtn)
    ctx.see("dtypes", str(x.dtype))
    ctx.see("axes", str(axis))
    ctx.see("layouts", layout)
    ctx.see("ranks", x.ndim)
    if ctx.counters.get("cases", 0) % 37 == 1:
        ctx.sample(dict(desc, scale=(float(scale) if scale.numel() == 1 else
                                     [float(v) for v in scale.flatten()[:4]] + ["..."]),
                        judged=stats.get("judged"), max_excess_over_tol=stats.get("max_excess_over_tol")))


def per_axis_scales(rng, n, wd, lo_e, hi_e):
    """n distinct tagged scales: random mantissas, exponents spread over [lo_e, hi_e]."""
    e = rng.integers(lo_e, hi_e + 1, size=n)
    m = 1.0 + rng.random(n)
    s = torch.tensor(m * 2.0 ** e, dtype=F64)
    # a few channels get subnormal scales (only those channels may be affected by a defect there)
    fi = torch.finfo(wd)
    k = max(1, n // 24)
    idx = rng.choice(n, size=k, replace=False)
    s[idx] = torch.tensor(fi.smallest_normal * rng.uniform(fi.eps, 1.0, size=k), dtype=F64)
    s = s.to(wd)
    tiny = torch.tensor(fi.smallest_normal * fi.eps, dtype=F64).to(wd)
    return torch.where(s > 0, s, tiny)


def run(ctx):
    import optimum.quanto as oq

    qtypes = oq.qtypes
    fn_act = oq.quantize_activation
    SQ = oq.SymmetricQuantizer
    rng = ctx.rng
    thorough = ctx.tier == "thorough"
    k = 0
    for wdn in ("float16", "bfloat16"):
        wd = gen.DTYPES[wdn]
        V = gen.all_finite(wd)
        N = V.numel()
        fi = torch.finfo(wd)
        emin = int(np.log2(fi.smallest_normal))
        for qtn, storage in STORAGE.items():
            scales = scalar_scales(rng, V, wd, storage, n_rand=96 if thorough else 3)
            for recipe, s in scales:
                for entry in ("quantize_activation", "SymmetricQuantizer.apply"):
                    k += 1
                    if ctx.mine(k):
                        judge(ctx, V, qtn, storage, s, None, entry, recipe, "contiguous", qtypes, fn_act, SQ)
            # per-axis: complete value space, one distinct tagged scale per axis index
            rows = 248 if wdn == "float16" else 255
            cols = N // rows
            shapes = [((rows, cols), 0), ((cols, rows), -1), ((rows, 8, cols // 8), 0), ((8, cols // 8, rows), -1),
                      ((rows, 2, 4, cols // 8), 0), ((2, 4, cols // 8, rows), -1)]
            for rep in range(16 if thorough else 1):
                for shape, axis in shapes:
                    k += 1
                    perm = torch.from_numpy(rng.permutation(N))
                    sc = per_axis_scales(rng, rows, wd, max(emin + 1, -20), min(8, int(np.log2(fi.max)) - 8))
                    if not ctx.mine(k):
                        continue
                    x = V[perm].reshape(shape)
                    sshape = [1] * len(shape)
                    sshape[0 if axis == 0 else -1] = rows
                    scale = sc.reshape(sshape)
                    # views whose elements share memory included: stride-0 expansion, sliding windows over a vector
                    for lname, xl in gen.layouts(x, which=("contiguous", "transposed", "sliced", "expanded", "windows")):
                        judge(ctx, xl, qtn, storage, scale, axis, "SymmetricQuantizer.apply", f"tagged{rep}", lname,
                              qtypes, fn_act, SQ)
                    # last axis addressed by its positive index is the documented alias of -1
                    if axis == -1 and rep == 0:
                        judge(ctx, x, qtn, storage, scale, len(shape) - 1, "SymmetricQuantizer.apply", "tagged-pos-axis",
                              "contiguous", qtypes, fn_act, SQ)
    # float32: boundary-directed and random
    wd = torch.float32
    for qtn, storage in STORAGE.items():
        srs = [2.0 ** e for e in (-100, -20, -7, 0, 5, 60)] + [0.0123, 3.7, 1e-3, 1234.5, 1e-40, 2.0 ** -149, 2e-39]
        srs += list(gen.loguniform(rng, 1e-30, 1e25, size=120 if thorough else 6))
        rows_x, rows_s = [], []
        for s in srs:
            sv = torch.tensor(s, dtype=F64).to(wd)
            x = boundary_points_f32(storage, float(sv))
            rows_x.append(x)
            rows_s.append(sv)
            for entry in ("quantize_activation", "SymmetricQuantizer.apply"):
                k += 1
                if ctx.mine(k):
                    judge(ctx, x, qtn, storage, sv, None, entry, f"boundary:{float(sv):.6g}", "contiguous", qtypes,
                          fn_act, SQ)
                    for lname, xl in gen.layouts(x[: (x.numel() // 2) * 2].reshape(-1, 2), which=("transposed", "sliced")):
                        judge(ctx, xl, qtn, storage, sv, None, entry, f"boundary:{float(sv):.6g}", lname, qtypes, fn_act,
                              SQ)
        # per-axis float32: row i = boundary set of scale i
        L = min(r.numel() for r in rows_x)
        X0 = torch.stack([r[:L] for r in rows_x])  # (n_scales, L)
        S0 = torch.stack(rows_s)
        k += 1
        if ctx.mine(k):
            judge(ctx, X0, qtn, storage, S0.reshape(-1, 1), 0, "SymmetricQuantizer.apply", "boundary-rows", "contiguous",
                  qtypes, fn_act, SQ)
            judge(ctx, X0.t().contiguous(), qtn, storage, S0.reshape(1, -1), -1, "SymmetricQuantizer.apply",
                  "boundary-cols", "contiguous", qtypes, fn_act, SQ)
            judge(ctx, X0.t(), qtn, storage, S0.reshape(1, -1), -1, "SymmetricQuantizer.apply", "boundary-cols",
                  "transposed", qtypes, fn_act, SQ)
            X3 = X0[:, : (L // 6) * 6].reshape(len(srs), 2, 3, -1)
            judge(ctx, X3, qtn, storage, S0.reshape(-1, 1, 1, 1), 0, "SymmetricQuantizer.apply", "boundary-rank4",
                  "contiguous", qtypes, fn_act, SQ)
        # random bit patterns with scales that saturate part of them
        for rep in range(120 if thorough else 4):
            k += 1
            r = gen.random_bits_f32(rng, 200_000 if thorough else 50_000)
            expo = float(rng.integers(-30, 30))
            r = (r.to(F64) * 0 + torch.sign(r.to(F64)) * torch.pow(torch.tensor(2.0, dtype=F64),
                 (torch.log2(r.abs().to(F64).clamp(min=1e-300)) % 16) + expo)).to(wd)
            r = r[torch.isfinite(r)]
            sv = torch.tensor(2.0 ** expo * float(gen.loguniform(rng, 0.01, 100)), dtype=F64).to(wd)
            if ctx.mine(k):
                judge(ctx, r, qtn, storage, sv, None, "quantize_activation", f"random-bits{rep}", "contiguous", qtypes,
                      fn_act, SQ)
