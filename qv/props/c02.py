"""C02 — int2/int4 affine quantization error is at most half a step per group (DESIGN.md section 4, C02)."""

import numpy as np
import torch

from qv import fp, gen, num, oracles

F64 = torch.float64

META = dict(
    level="exploration",
    shards={"quick": 8, "thorough": 16},
    watchdog_s={"quick": 900, "thorough": 3600},
    evaluations_counter="cases",
    min={"cases": 1000, "elements": 100_000, "idem_elements": 20_000},
    anchors=["tensor/qweight.py:quantize_weight",
             "tensor/quantizers/affine.py:AffineQuantizer.forward",
             "tensor/qbits/qbits.py:QBitsDequantizer.forward",
             "tensor/qbits/group.py:group",
             "tensor/qbits/group.py:ungroup",
             "tensor/optimizers/max_optimizer.py:MaxOptimizer.optimize",
             "tensor/qbits/packed.py:PackedTensor.pack",
             "tensor/qbits/packed.py:PackedTensor.unpack"],
    rule="case = tensor assembled group by group from value classes {zeros, constant, one-sided +/-, offset, "
         "subnormal, tiny, mixed, single non-zero, heavy tail, ordinary} x dtype x bits x axis x group size "
         "(None + every divisor of the per-axis element count) x rank 1-4 x layout; non-trivial when the tensor has "
         ">=2 groups of different classes and at least one group that does not straddle zero; distinct by a hash of "
         "(configuration, class assignment)",
    assumptions=["group membership is modelled independently: consecutive runs of group_size elements of one axis "
                 "index in row-major order of the remaining dims", "for 1-D tensors without group size the grouping "
                 "(per element or per tensor) is read from the number of scales, because the statement does not fix it",
                 "magnitudes stay below dtype max / 8 (C16 owns the extremes)"],
)

CLASSES = ["zeros", "constant", "one_sided_pos", "one_sided_neg", "offset", "subnormal", "tiny", "mixed",
           "single_nonzero", "heavy_tail", "ordinary"]

SHAPES = [(8,), (32,), (2, 8), (8, 2), (4, 16), (16, 4), (3, 32), (32, 3), (2, 4, 8), (4, 2, 8), (3, 2, 2, 4),
          (2, 3, 4, 8), (4, 8, 8, 16), (6, 6), (12, 12), (5, 12), (12, 5), (2, 128), (128, 2), (8, 256), (2, 2, 2, 2),
          # unit dimensions opposite to the kept axis (Linear(in_features=1), 1x1 and kx1 convolution kernels)
          (8, 1), (1, 8), (6, 4, 1, 1), (6, 4, 2, 1), (1, 4, 6), (6, 1, 1, 4),
          # more rows / columns than a row-blocked implementation would take at once (1024)
          (1030, 8), (8, 1030)]


def build_tensor(rng, shape, axis, group_size, wd, classes=CLASSES, maxmag=None):
    gid = num.group_ids(shape, axis, group_size)
    ng = int(gid.max()) + 1
    flat_gid = gid.reshape(-1).numpy()
    vals = np.zeros(flat_gid.shape[0])
    fi = torch.finfo(wd)
    hi_mag = min(1e4, fi.max / 8) if maxmag is None else maxmag
    assign = []
    # pair classes: two random classes alternate over groups, so every pairing occurs across cases
    c1, c2 = rng.choice(len(classes), 2)
    for g in range(ng):
        cname = classes[c1 if g % 2 == 0 else c2] if rng.random() < 0.8 else classes[rng.integers(len(classes))]
        m = flat_gid == g
        n = int(m.sum())
        mag = float(gen.loguniform(rng, 1e-3, hi_mag))
        vals[m] = gen.value_class(rng, cname, n, wd, mag)
        assign.append(cname)
    x = torch.tensor(vals, dtype=F64).reshape(shape).to(wd)
    x = torch.where(torch.isfinite(x), x, torch.zeros_like(x))
    return x, assign, gid


def judge(ctx, x, bits, axis, group_size, assign, layout, oq, cfg_only=False):
    qt = oq.qint2 if bits == 2 else oq.qint4
    desc = dict(dtype=str(x.dtype), bits=bits, axis=axis, group_size=group_size, shape=list(x.shape), layout=layout,
                classes=sorted(set(assign)))
    if not ctx.case(desc):
        return
    xb = fp.plain_bytes(x)
    try:
        q = oq.quantize_weight(x, qt, axis, group_size)
    except Exception as e:
        ctx.violation(dict(kind="raises", exc=type(e).__name__, bits=bits, dtype=str(x.dtype)),
                      dict(msg=str(e)[:300], desc=desc))
        return
    if fp.plain_bytes(x) != xb:
        ctx.violation(dict(kind="source_modified", bits=bits), dict(desc=desc))

    inn, _ = fp.inner(q)

    def requant(dq):
        return oq.AffineQuantizer.apply(dq, qt, axis, group_size, inn["_scale"], inn["_zeropoint"])

    stats = {}
    ax, gs = axis, group_size
    if x.ndim == 1 and group_size is None and inn["_scale"].numel() == 1:
        ax = None  # see assumptions
    fails = oracles.check_affine(x, bits, ax, gs, q, requant=requant, stats=stats)
    ctx.count("elements", stats.get("elements", 0))
    ctx.count("idem_elements", stats.get("idem_elements", 0))
    if "max_err_over_bound" in stats:
        ctx.maxstat("err/bound:" + str(x.dtype), stats["max_err_over_bound"])
    mf = oracles.check_meta(q, expect_qtype=qt.name, expect_axis=axis, expect_group=group_size, deq=False)
    for f in mf:
        f["kind"] = "meta:" + f["kind"]
    for f in fails + mf:
        ctx.violation(dict(kind=f["kind"], bits=bits, dtype=str(x.dtype)), dict(fail=f, desc=desc))
    onesided = any(c in ("constant", "one_sided_pos", "one_sided_neg", "offset", "single_nonzero") for c in assign)
    if len(set(assign)) >= 2 and onesided:
        ctx.nontrivial(str(x.dtype), bits, axis, group_size, tuple(x.shape), layout, tuple(assign[:16]))
    ctx.see("classes", "+".join(sorted(set(assign)))[:80], cap=400)
    ctx.see("group_sizes", str(group_size))
    ctx.see("ranks", x.ndim)
    ctx.see("layouts", layout)
    if ctx.counters.get("cases", 0) % 97 == 1:
        ctx.sample(dict(desc, max_err_over_bound=stats.get("max_err_over_bound"), first_values=[float(v) for v in
                                                                                                  x.flatten()[:6]]))


def run(ctx):
    import optimum.quanto as oq

    rng = ctx.rng
    n_cases = 3000 if ctx.tier == "quick" else 150_000
    per_shard = n_cases // ctx.nshards
    i = 0
    while i < per_shard:
        shape = SHAPES[rng.integers(len(SHAPES))]
        wd = [torch.float32, torch.float16, torch.bfloat16][rng.integers(3)]
        bits = int(rng.choice([2, 4]))
        axis = int(rng.choice([0, -1]))
        numel = int(np.prod(shape))
        n_ax = shape[0 if axis == 0 else -1]
        per = numel // n_ax
        divs = gen.divisors(per)
        gs = None if rng.random() < 0.3 else int(divs[rng.integers(len(divs))])
        if len(shape) == 1 and gs is not None and gs != 1:
            gs = 1
        x, assign, _ = build_tensor(rng, shape, axis if (len(shape) > 1 or gs is not None) else None, gs, wd)
        lays = ("contiguous",) if rng.random() < 0.7 else ("transposed", "sliced", "expanded", "windows")
        for lname, xl in gen.layouts(x, which=lays):
            judge(ctx, xl, bits, axis, gs, assign, lname, oq)
            i += 1
