"""C03 — scale selection is non-saturating, full-range and local to its axis/group (DESIGN.md section 4, C03)."""

import numpy as np
import torch

from qv import fp, gen, num, oracles
from qv.props.c02 import CLASSES, SHAPES, build_tensor

F64 = torch.float64

META = dict(
    level="exploration",
    shards={"quick": 8, "thorough": 16},
    watchdog_s={"quick": 900, "thorough": 3600},
    evaluations_counter="executions",
    min={"cases": 1000, "metamorphic_pairs": 1000, "range_checks": 2000},
    anchors=["tensor/qweight.py:quantize_weight",
             "calibrate.py:absmax_scale",
             "tensor/optimizers/absmax_optimizer.py:AbsmaxOptimizer.optimize",
             "tensor/optimizers/max_optimizer.py:MaxOptimizer.optimize",
             "tensor/core.py:axis_to_dim"],
    rule="case = base tensor whose rows/groups have ranges spread over >=3 decades (value classes as in C02) x one API "
         "(AbsmaxOptimizer, MaxOptimizer, absmax_scale, quantize_weight) x qtype x axis x group size, plus 3-6 "
         "metamorphic siblings (other rows/groups rescaled by factors in [1e-3,1e3], replaced by another class, rows "
         "permuted); non-trivial when ranges span >=3 decades and a sibling changes another row/group; distinct by "
         "hash of configuration and class assignment",
    assumptions=["scales of grouped tensors are paired with groups in axis-index-major, group-rank-minor order (the "
                 "order of the documented (n_groups,1)/(1,n_groups) layouts)", "rounding tolerance = 2 ulp of the "
                 "returned scale (with the subnormal floor of the dtype)", "magnitudes below dtype max / 8 (C16 owns "
                 "the extremes)"],
)

QT8 = ["qint8", "qfloat8_e4m3fn", "qfloat8_e5m2", "qfloat8"]
STORAGE = {"qint8": torch.int8, "qfloat8_e4m3fn": torch.float8_e4m3fn, "qfloat8_e5m2": torch.float8_e5m2,
           "qfloat8": torch.float8_e4m3fn}


def per_group_absmax(X, gid, ng):
    flat = X.abs().reshape(-1)
    return torch.zeros(ng, dtype=F64).scatter_reduce(0, gid.reshape(-1), flat, reduce="amax", include_self=True)


def check_sym_scale(ctx, x, scale, axis, qmax, site, qtn, desc):
    """(a) non-saturation, (b) full range, (c) dtype/count/layout for a symmetric scale."""
    wd = x.dtype
    sig = dict(site=site, qtype_family="float8" if "float8" in qtn else "int8", dtype=str(wd))
    s_plain = oracles.plain(scale)
    if s_plain.dtype != wd:
        ctx.violation(dict(sig, kind="scale_dtype"), dict(got=str(s_plain.dtype), desc=desc))
    gid = num.group_ids(tuple(x.shape), axis, None)
    ng = int(gid.max()) + 1
    if s_plain.numel() != ng:
        ctx.violation(dict(sig, kind="scale_count"), dict(numel=int(s_plain.numel()), want=ng, desc=desc))
        return
    if axis is not None:
        want = [1] * x.ndim
        want[0 if axis == 0 else -1] = x.shape[0 if axis == 0 else -1]
        if list(s_plain.shape) != want:
            ctx.violation(dict(sig, kind="scale_layout"), dict(got=list(s_plain.shape), want=want, desc=desc))
            return
    S = s_plain.to(F64).reshape(-1)
    X = x.to(F64)
    amax = per_group_absmax(X, gid, ng)
    u = num.ulp(S, wd)
    ctx.count("range_checks", ng)
    # (a) no element saturates by more than rounding
    bad = ~(amax <= qmax * (S + 2 * u))
    if bad.any():
        i = int(torch.nonzero(bad)[0])
        ctx.violation(dict(sig, kind="saturating_scale"),
                      dict(group=i, absmax=float(amax[i]), scale=float(S[i]), qmax=qmax, desc=desc))
    # (b) full range
    bad = ~(S <= amax / qmax + 2 * u)
    ok = torch.isfinite(S) & (amax > 0)
    if ok.any():
        ctx.maxstat("scale*qmax/absmax:" + sig["qtype_family"], float((S[ok] * qmax / amax[ok]).max()))
    if bad.any():
        i = int(torch.nonzero(bad)[0])
        r = float(S[i] * qmax / amax[i]) if amax[i] > 0 else float("inf")
        rel = "scale*127~absmax" if abs(float(S[i]) * 127 - float(amax[i])) <= 4 * float(u[i]) * 127 else "other"
        ctx.violation(dict(sig, kind="scale_not_full_range", relation=rel),
                      dict(group=i, absmax=float(amax[i]), scale=float(S[i]), qmax=qmax, ratio=r, desc=desc))


def check_affine_scale(ctx, x, scale, zp, bits, axis, gs, site, desc):
    wd = x.dtype
    sig = dict(site=site, qtype_family="int%d" % bits, dtype=str(wd))
    s_plain, z_plain = oracles.plain(scale), oracles.plain(zp)
    if s_plain.dtype != wd:
        ctx.violation(dict(sig, kind="scale_dtype"), dict(got=str(s_plain.dtype), desc=desc))
    ax = axis
    if x.ndim == 1 and gs is None and s_plain.numel() == 1:
        ax = None
    gid = num.group_ids(tuple(x.shape), ax, gs)
    ng = int(gid.max()) + 1
    if s_plain.numel() != ng or z_plain.numel() != ng:
        ctx.violation(dict(sig, kind="scale_count"), dict(numel=int(s_plain.numel()), want=ng, desc=desc))
        return
    X = x.to(F64)
    lo, hi = oracles.group_hull(X, gid, ng)
    S = s_plain.to(F64).reshape(-1)[gid]
    Z = z_plain.to(F64).reshape(-1)[gid]
    nlev = 2 ** bits - 1
    u = num.ulp(S, wd)
    ctx.count("range_checks", ng)
    nz = S > 0
    # (a) non-saturation: x/s + zp stays within half a step of [0, nlev]
    Sd = torch.where(nz, S, torch.ones_like(S))
    q = X / Sd + Z
    tol = 8 * num.eps(wd) * (X.abs() / Sd + Z.abs()) + 2 * u / Sd * (X.abs() / Sd)
    bad = nz & ~((q >= -0.5 - tol) & (q <= nlev + 0.5 + tol))
    if bad.any():
        w = oracles._first(bad, x=X, s=S, zp=Z, q=q, lo=lo, hi=hi)
        ctx.violation(dict(sig, kind="saturating_scale"), dict(w, desc=desc))
    # zero scale only for all-zero groups
    # zero scale only when the nominal step itself rounds to zero in the working dtype
    bad = ~nz & ((hi - lo) / nlev > num.smallest_subnormal(wd))
    if bad.any():
        ctx.violation(dict(sig, kind="null_scale_for_nonzero_group"), dict(oracles._first(bad, lo=lo, hi=hi), desc=desc))
    # (b) full range
    bad = ~(S <= (hi - lo) / nlev + 2 * u)
    if bad.any():
        w = oracles._first(bad, s=S, lo=lo, hi=hi)
        ctx.violation(dict(sig, kind="scale_not_full_range"), dict(w, nlev=nlev, desc=desc))


def spread_tensor(rng, shape, axis, gs, wd):
    """Tensor whose groups have ranges spread over >= 3 decades."""
    x, assign, gid = build_tensor(rng, shape, axis, gs, wd,
                                  classes=["mixed", "ordinary", "one_sided_pos", "one_sided_neg", "offset", "heavy_tail",
                                           "constant", "single_nonzero", "zeros", "tiny"])
    return x, assign, gid


def row_view(t, axis, i):
    return t.select(0 if axis == 0 else t.ndim - 1, i)


def run(ctx):
    import optimum.quanto as oq

    rng = ctx.rng
    qtypes = oq.qtypes
    n_cases = 2000 if ctx.tier == "quick" else 60_000
    per_shard = n_cases // ctx.nshards
    absmax_opt, max_opt = oq.AbsmaxOptimizer(), oq.MaxOptimizer()
    for it in range(per_shard):
        shape = SHAPES[rng.integers(len(SHAPES))]
        wd = [torch.float32, torch.float16, torch.bfloat16][rng.integers(3)]
        low = rng.random() < 0.5
        nd = len(shape)
        if low:
            bits = int(rng.choice([2, 4]))
            qtn = "qint%d" % bits
            axis = int(rng.choice([0, -1]))
            numel = int(np.prod(shape))
            per = numel // shape[0 if axis == 0 else -1]
            divs = gen.divisors(per)
            gs = None if rng.random() < 0.4 else int(divs[rng.integers(len(divs))])
            if nd == 1 and gs is not None:
                gs = 1
        else:
            qtn = QT8[rng.integers(len(QT8))]
            axis = [None, 0, -1][rng.integers(3)]
            if nd == 1 or (axis is not None and shape[0 if axis == 0 else -1] == 1):
                axis = None
            gs = None
        x, assign, gid = spread_tensor(rng, shape, axis if (nd > 1 or gs is not None) else None, gs, wd)
        # weights are not always freshly allocated: transposed storage (tied / transposed layers), channels_last convolution
        # kernels and windows of a larger buffer hold the same values
        u = rng.random()
        lay = "contiguous"
        if nd >= 2 and u < 0.4:
            if nd == 4 and u < 0.12:
                x, lay = x.contiguous(memory_format=torch.channels_last), "channels_last"
            else:
                lay = "transposed" if u < 0.27 else "sliced"
                x = next(gen.layouts(x, which=(lay,)))[1]
        desc = dict(dtype=str(wd), qtype=qtn, axis=axis, group_size=gs, shape=list(shape), classes=sorted(set(assign)), layout=lay)
        if not ctx.case(desc):
            continue
        ctx.see("layouts", lay)
        if lay != "contiguous":
            ctx.count("noncontiguous_sources")
        ctx.count("executions")
        crng = ctx.crng
        xb = fp.plain_bytes(x)
        try:
            if low:
                s, z = max_opt(x, bits, axis, gs)
                ctx.count("calls:MaxOptimizer")
                check_affine_scale(ctx, x, s, z, bits, axis, gs, "MaxOptimizer", desc)
                q = oq.quantize_weight(x, qtypes[qtn], axis, gs)
                ctx.count("calls:quantize_weight")
                inn, _ = fp.inner(q)
                check_affine_scale(ctx, x, inn["_scale"], inn["_zeropoint"], bits, axis, gs, "quantize_weight", desc)
            else:
                st = STORAGE[qtn]
                qmax_q = float(num.code_table(st)[-1])
                s = absmax_opt(x, 8, axis)
                ctx.count("calls:AbsmaxOptimizer")
                check_sym_scale(ctx, x, s, axis, 127.0, "AbsmaxOptimizer", "qint8", desc)
                s2 = oq.absmax_scale(x, qtypes[qtn], axis)
                ctx.count("calls:absmax_scale")
                check_sym_scale(ctx, x, s2, axis, qmax_q, "absmax_scale", qtn, desc)
                if nd > 1 and axis is not None:
                    q = oq.quantize_weight(x, qtypes[qtn], axis)
                    ctx.count("calls:quantize_weight")
                    inn, _ = fp.inner(q)
                    # judged for the axis that was *requested* (a kept axis of size 1 degrades to per-tensor, which is the
                    # same thing); what the result declares is C06's business
                    check_sym_scale(ctx, x, inn["_scale"], axis, qmax_q, "quantize_weight", qtn, desc)
                else:
                    q = None
        except Exception as e:
            ctx.violation(dict(kind="raises", exc=type(e).__name__, qtype=qtn, dtype=str(wd)),
                          dict(msg=str(e)[:300], desc=desc))
            continue
        if fp.plain_bytes(x) != xb:
            ctx.violation(dict(kind="source_modified", qtype=qtn), dict(desc=desc))
        # ---- (d) locality, metamorphic ---------------------------------------------------------------
        if q is None or (nd == 1 and gs is None):
            continue
        ax = 0 if axis == 0 else nd - 1
        n_ax = shape[ax]
        dq = oracles.plain(q.dequantize())
        X = x.clone()
        ng = int(gid.max()) + 1
        keep_g = int(crng.integers(ng))
        keep_mask = gid == keep_g
        spans = False
        am = per_group_absmax(x.to(F64), gid, ng)
        amz = am[am > 0]
        if amz.numel() >= 2 and float(amz.max() / amz.min()) >= 1e3:
            spans = True
        nsib = int(crng.integers(3, 7))
        for sidx in range(nsib):
            kind = ["rescale", "replace", "permute"][sidx % 3]
            Y = X.clone()
            perm = None
            if kind == "rescale":
                fac = torch.tensor(gen.loguniform(crng, 1e-3, 1e3, size=ng), dtype=F64)[gid]
                Yn = (X.to(F64) * fac).to(wd)
                Yn = torch.where(torch.isfinite(Yn) & (Yn.abs() < torch.finfo(wd).max / 8), Yn, X)
                Y = torch.where(keep_mask, X, Yn)
            elif kind == "replace":
                Z, _, _ = spread_tensor(crng, shape, axis if (nd > 1 or gs is not None) else None, gs, wd)
                Y = torch.where(keep_mask, X, Z)
            else:
                if n_ax < 2:
                    continue
                perm = torch.from_numpy(crng.permutation(n_ax))
                Y = X.index_select(ax, perm)
            try:
                q2 = oq.quantize_weight(Y, qtypes[qtn], axis, gs) if low else oq.quantize_weight(Y, qtypes[qtn], axis)
            except Exception as e:
                ctx.violation(dict(kind="raises_on_sibling", exc=type(e).__name__, qtype=qtn, dtype=str(wd)),
                              dict(msg=str(e)[:300], desc=desc, sibling=kind))
                continue
            dq2 = oracles.plain(q2.dequantize())
            ctx.count("metamorphic_pairs")
            ctx.count("executions")
            if perm is not None:
                same = fp.plain_bytes(dq2) == fp.plain_bytes(dq.index_select(ax, perm))
            else:
                a = dq[keep_mask]
                b = dq2[keep_mask]
                same = fp.plain_bytes(a) == fp.plain_bytes(b)
            if not same:
                ctx.violation(dict(kind="not_local", sibling=kind, qtype_family=("int%d" % bits) if low else
                                   ("float8" if "float8" in qtn else "int8"), axis=axis, grouped=gs is not None),
                              dict(desc=desc, keep_group=keep_g))
            if spans:
                ctx.nontrivial(str(wd), qtn, axis, gs, tuple(shape), tuple(assign[:12]), kind)
        ctx.see("qtypes", qtn)
        ctx.see("axes", str(axis))
        ctx.see("group_sizes", str(gs))
        if it % 61 == 0:
            ctx.sample(dict(desc, n_siblings=nsib, spans_3_decades=spans))
