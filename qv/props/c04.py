"""C04 — sub-byte packing is lossless, dense and identical across unpack kernels (the sanitizer property)."""

import glob
import importlib.util
import os
import subprocess
import warnings

import numpy as np
import torch

from qv import fp, gen, num, runner

META = dict(
    level="exploration",
    shards={"quick": 4, "thorough": 12},
    watchdog_s={"quick": 1500, "thorough": 3600},
    evaluations_counter="cases",
    min={"cases": 300, "calls:route_ext_sanitized": 300, "calls:route_py": 300, "calls:route_top": 300,
         "calls:route_disabled": 300, "calls:route_ext_failing": 50, "packed_ops": 200},
    anchors=["tensor/qbits/packed.py:PackedTensor.pack", "tensor/qbits/packed.py:PackedTensor.unpack",
             "library/python/unpack.py:unpack", "library/ext/cpp/__init__.py:unpack_cpp",
             "tensor/qbits/packed.py:PackedTensor.__torch_dispatch__"],
    rule="case = (bits, leading dimension, trailing shape, layout, filling) pushed through pack/unpack and through every "
         "route of the unpack operator (python, ASan/UBSan-instrumented C++ via the repo's glue, top-level with "
         "extensions on, disabled, failing extension) plus operations on the packed tensor; all 256 byte values and all "
         "leading-dimension residues are enumerated; non-trivial when the leading dimension is not a multiple of 8/bits "
         "or the input is strided; distinct by (bits, leading dim, trailing shape, layout, filling)",
    exhaustive_note="all 256 byte values x bits {2,4} x every route; every leading dimension 1..64 (quick) / 1..257 "
                    "(thorough), hence every residue modulo 8/bits",
    assumptions=["reference unpack: numpy shift/mask/concatenate along dim 0", "a clean ASan/UBSan log means no report "
                 "on the observed calls, not memory safety", "CUDA and MPS kernels cannot run here"],
)


def prepare(tier):
    """Build the sanitized extension from the working tree (cached by source hash). Returns worker env."""
    so = subprocess.run([os.path.join(runner.VERIF, "sanitizer", "build_ext.sh"), runner.REPO], check=True,
                        stdout=subprocess.PIPE, stderr=subprocess.PIPE, text=True, timeout=1200).stdout.strip().splitlines()[-1]
    rt = subprocess.run(["clang-14", "-print-file-name=libclang_rt.asan-x86_64.so"], check=True, stdout=subprocess.PIPE,
                        text=True).stdout.strip()
    logdir = os.path.join(runner.VERIF, ".cache", "sanlogs", str(os.getpid()))
    os.makedirs(logdir, exist_ok=True)
    for f in glob.glob(os.path.join(logdir, "*")):
        os.unlink(f)
    return {
        "LD_PRELOAD": rt,
        "ASAN_OPTIONS": f"detect_leaks=0:halt_on_error=1:abort_on_error=1:log_path={logdir}/asan",
        "UBSAN_OPTIONS": f"halt_on_error=1:abort_on_error=1:print_stacktrace=1:log_path={logdir}/ubsan",
        "QV_ASAN_SO": so,
        "QV_SANLOG": logdir,
    }


def finalize(m, tier):
    """Count sanitizer report blocks in the logs (never trust exit codes alone)."""
    logdir = os.path.join(runner.VERIF, ".cache", "sanlogs", str(os.getpid()))
    n_reports, heads = 0, []
    for f in glob.glob(os.path.join(logdir, "*")):
        try:
            txt = open(f, errors="replace").read()
        except Exception:
            continue
        for line in txt.splitlines():
            if "ERROR: AddressSanitizer" in line or "runtime error:" in line or "ERROR: UndefinedBehaviorSanitizer" in line:
                n_reports += 1
                heads.append(line.strip()[:200])
        os.unlink(f)
    try:
        os.rmdir(logdir)
    except OSError:
        pass
    for name in ("bytes_at_cpp_boundary", "bytes_at_operator_boundary", "payload_bytes"):
        if len(m["sets"].get(name, ())) != 256:
            m["inconclusive"].append(f"{name}: only {len(m['sets'].get(name, ()))} of 256 byte values observed")
    for bits in (2, 4):
        if len(m["sets"].get(f"residues_bits{bits}", ())) != 8 // bits:
            m["inconclusive"].append(f"not every leading-dimension residue observed for bits={bits}")
    m["counters"]["sanitizer_reports"] = n_reports
    m["sets"].setdefault("sanitizer", set()).add(f"report_blocks={n_reports}")
    for h in heads[:5]:
        sig = {"kind": "sanitizer_report", "head": h.split(":")[-1].strip()[:60] if "runtime error" in h else h[:80]}
        key = runner._h(sorted(sig.items()))
        m["violations"].append({"sig": sig, "detail": {"line": h}, "key": key,
                                "case": {"shard": 0, "nshards": 1, "index": 0, "desc": "sanitizer log"}})
        m["counters"]["sig:" + key] = m["counters"].get("sig:" + key, 0) + 1


def ref_unpack(b, bits):
    """Independent reference of the unpack operator on a uint8 array (numpy)."""
    a = b.numpy() if isinstance(b, torch.Tensor) else b
    mask = (1 << bits) - 1
    parts = [((a >> (bits * i)) & mask) for i in range(8 // bits)]
    return torch.from_numpy(np.concatenate(parts, axis=0).astype(np.uint8))


class LibProxy:
    def __init__(self, real, ctx):
        self.real, self.ctx = real, ctx

    def unpack(self, t, bits):
        self.ctx.count("calls:route_ext_sanitized")
        for v in torch.unique(t).tolist():
            self.ctx.see("bytes_at_cpp_boundary", int(v), cap=256)
        return self.real.unpack(t, bits)


class FailingLib:
    def __init__(self, ctx):
        self.ctx = ctx

    def unpack(self, t, bits):
        self.ctx.count("calls:route_ext_failing")
        raise RuntimeError("injected: extension cannot be loaded")


TRAILING = [(), (1,), (3,), (16,), (2, 3), (7, 3), (2, 2, 2), (5, 1, 2)]


def fill(rng, kind, shape, bits):
    mx = (1 << bits) - 1
    if kind == "random":
        return torch.from_numpy(rng.integers(0, mx + 1, size=shape, dtype=np.uint8))
    if kind == "max":
        return torch.full(shape, mx, dtype=torch.uint8)
    if kind == "onehot":
        t = torch.zeros(shape, dtype=torch.uint8)
        t.view(-1)[int(rng.integers(t.numel()))] = mx
        return t
    if kind == "ramp":
        return (torch.arange(int(np.prod(shape))) % (mx + 1)).to(torch.uint8).reshape(shape)
    raise KeyError(kind)


def same_result(got, want):
    if isinstance(want, (tuple, list)):
        return isinstance(got, (tuple, list)) and len(got) == len(want) and all(same_result(g, w) for g, w in zip(got, want))
    if hasattr(got, "unpack") and hasattr(got, "_bits"):
        got = got.unpack()
    if not isinstance(want, torch.Tensor):
        return (not isinstance(got, torch.Tensor)) and got == want
    if not isinstance(got, torch.Tensor):
        return False
    return tuple(got.shape) == tuple(want.shape) and got.dtype == want.dtype and torch.equal(got, want)


def describe(v):
    if isinstance(v, (tuple, list)):
        return [describe(x) for x in v][:4]
    if isinstance(v, torch.Tensor):
        return dict(type=type(v).__name__, shape=list(v.shape), dtype=str(v.dtype))
    return repr(v)[:40]


def op_pool(r, tc):
    """Programs over one uint8 tensor; every dimension argument is drawn over the whole legal range -ndim..ndim-1."""
    import copy

    nd = tc.ndim
    d = int(r.integers(-nd, nd))
    d2 = int(r.integers(-nd, nd))
    n = tc.shape[d]
    s = int(r.integers(0, n))
    ln = int(r.integers(1, n - s + 1))
    step = int(r.integers(1, 4))
    idx = torch.from_numpy(r.integers(0, n, size=int(r.integers(1, 5))))
    i0 = int(r.integers(-tc.shape[0], tc.shape[0]))
    other = tc.flip(0)
    mask = tc > int(r.integers(0, 3))
    return {
        "narrow": lambda a: a.narrow(d, s, ln),
        "aten_slice": lambda a: torch.ops.aten.slice(a, d, s, s + ln),
        "aten_slice_step": lambda a: torch.ops.aten.slice(a, d, s, n, step),
        "aten_slice_open": lambda a: torch.ops.aten.slice(a, d, s),
        "select": lambda a: a.select(d, s),
        "diff": lambda a: torch.diff(a, dim=d),
        "flip": lambda a: a.flip(d),
        "roll": lambda a: a.roll(s, d),
        "cumsum": lambda a: a.cumsum(d),
        "sum_dim": lambda a: a.sum(d),
        "amax": lambda a: a.amax(d),
        "argmax": lambda a: a.argmax(d),
        "transpose": lambda a: a.transpose(d, d2),
        "movedim": lambda a: a.movedim(d, d2),
        "unsqueeze": lambda a: a.unsqueeze(d),
        "chunk": lambda a: a.chunk(2, d),
        "split": lambda a: a.split(ln, d),
        "tensor_split": lambda a: a.tensor_split(2, d),
        "index_select": lambda a: a.index_select(d, idx),
        "unbind": lambda a: a.unbind(d),
        "repeat_interleave": lambda a: a.repeat_interleave(2, d),
        "sort": lambda a: a.sort(d, stable=True)[0],
        "cat_dim": lambda a: torch.cat([a, a], d),
        "cat_plain": lambda a: torch.cat([a, other], d),
        "stack": lambda a: torch.stack([a, a], d),
        "count_nonzero": lambda a: a.count_nonzero(d),
        "any_dim": lambda a: (a > 0).any(d),
        "gather": lambda a: a.gather(d, torch.zeros_like(tc, dtype=torch.int64)),
        "getitem_int": lambda a: a[i0],
        "getitem_ellipsis": lambda a: a[..., -1] if nd > 1 else a[-1],
        "getitem_step": lambda a: a[::step],
        "getitem_negslice": lambda a: a[-ln:],
        "getitem_range": lambda a: a[s:s + ln] if d in (0, -nd) else a[:, 0:1] if nd > 1 else a[0:1],
        "getitem_idx": lambda a: a[torch.tensor([0, tc.shape[0] - 1])],
        "getitem_mask": lambda a: a[mask],
        "flatten": lambda a: a.flatten(),
        "view": lambda a: a.view(-1),
        "permute": lambda a: a.permute(*reversed(range(nd))),
        "mT": lambda a: a.mT if nd >= 2 else a.clone(),
        "expand": lambda a: a.unsqueeze(0).expand(2, *a.shape),
        "squeeze": lambda a: a.squeeze(),
        "contiguous": lambda a: a.contiguous(),
        "where": lambda a: torch.where(mask, a, torch.zeros_like(tc)),
        "minimum": lambda a: torch.minimum(a, other),
        "maximum_rev": lambda a: torch.maximum(other, a),
        "rshift": lambda a: a >> 1,
        "floordiv": lambda a: a // 2,
        "rem": lambda a: a % 2,
        "sub": lambda a: a - 1,
        "radd": lambda a: 1 + a,
        "bitor": lambda a: a | other,
        "bitxor": lambda a: a ^ 1,
        "clamp": lambda a: a.clamp(1, 2),
        "masked_fill": lambda a: a.masked_fill(mask, 0),
        "max": lambda a: a.max(),
        "min_item": lambda a: a.min().item(),
        "sum_item": lambda a: a.sum().item(),
        "nonzero": lambda a: a.nonzero(),
        "unique": lambda a: a.unique(),
        "equal": lambda a: torch.equal(a, tc),
        "equal_other": lambda a: torch.equal(a, other),
        "ne": lambda a: a != other,
        "zeros_like": lambda a: torch.zeros_like(a),
        "ones_like": lambda a: torch.ones_like(a),
        "copy_into_plain": lambda a: torch.empty_like(tc).copy_(a),
        "tril": lambda a: a.tril(),
        "int": lambda a: a.int(),
        "bool": lambda a: a.bool(),
        "numpy": lambda a: torch.from_numpy(a.numpy()),
        "deepcopy": lambda a: copy.deepcopy(a),
        "parameter": lambda a: torch.nn.Parameter(a, requires_grad=False),
        "parameter_data": lambda a: torch.nn.Parameter(a, requires_grad=False).data,
        "detach_twice": lambda a: a.detach().detach(),
        "len": lambda a: len(a),
        "iter": lambda a: list(a),
        "size_numel": lambda a: (tuple(a.size()), a.numel(), a.dim(), str(a.dtype)),
        "matmul_onehot": lambda a: a.reshape(a.shape[0], -1).t() @ torch.ones(a.shape[0], 1, dtype=torch.uint8),
    }


def inplace_pool(r, tc):
    """In-place programs whose results still fit in the packed width."""
    mask = tc > 0
    other = tc.flip(0).clone()
    i0 = int(r.integers(-tc.shape[0], tc.shape[0]))
    return {
        "zero_": lambda a: a.zero_(),
        "fill_1": lambda a: a.fill_(1),
        "mul_0": lambda a: a.mul_(0),
        "bitand_1": lambda a: a.bitwise_and_(1),
        "clamp_01": lambda a: a.clamp_(0, 1),
        "copy_": lambda a: a.copy_(other),
        "setitem_row": lambda a: a.__setitem__(i0, 1),
        "masked_fill_": lambda a: a.masked_fill_(mask, 0),
        "iand": lambda a: a.__iand__(1),
        "floor_divide_": lambda a: a.floor_divide_(2),
    }


def run(ctx):
    import optimum.quanto as oq
    from optimum.quanto.library import ops as qops
    from optimum.quanto.library.ext.cpp import ext

    PackedTensor = oq.PackedTensor if hasattr(oq, "PackedTensor") else None
    if PackedTensor is None:
        from optimum.quanto.tensor.qbits import PackedTensor
    so = os.environ.get("QV_ASAN_SO")
    if not so or not os.path.exists(so):
        ctx.inconclusive("sanitized extension not available")
        return
    spec = importlib.util.spec_from_file_location("quanto_cpp_asan", so)
    real = importlib.util.module_from_spec(spec)
    spec.loader.exec_module(real)
    proxy = LibProxy(real, ctx)
    failing = FailingLib(ctx)
    ext._lib = proxy
    rng = ctx.rng
    warnings.simplefilter("ignore")

    def routes(b, bits, desc):
        """All routes of the unpack operator on byte tensor b must equal the reference."""
        want = ref_unpack(b.contiguous(), bits)
        res = {}
        ext._lib = proxy

        def call(route, f):
            # every route is defined on every byte tensor: an exception is a violation, not a harness problem
            try:
                res[route] = f()
            except Exception as e:
                ctx.violation(dict(kind="unpack_route_raises", route=route, bits=bits, exc=type(e).__name__),
                              dict(desc=desc, msg=str(e)[:300]))

        ctx.count("calls:route_py")
        call("py", lambda: torch.ops.quanto_py.unpack(b, bits))
        call("ext", lambda: torch.ops.quanto_ext.unpack(b, bits))
        n0 = ctx.counters.get("calls:route_ext_sanitized", 0)
        ctx.count("calls:route_top")
        call("top", lambda: torch.ops.quanto.unpack(b, bits))
        if ctx.counters.get("calls:route_ext_sanitized", 0) != n0 + 1:
            ctx.violation(dict(kind="router_did_not_use_extension"), dict(desc=desc))
        n0 = ctx.counters.get("calls:route_ext_sanitized", 0)
        try:
            with qops.disable_extensions():
                ctx.count("calls:route_disabled")
                call("disabled", lambda: torch.ops.quanto.unpack(b, bits))
        except Exception as e:
            ctx.violation(dict(kind="disable_extensions_raises", exc=type(e).__name__), dict(desc=desc, msg=str(e)[:300]))
        if ctx.counters.get("calls:route_ext_sanitized", 0) != n0:
            ctx.violation(dict(kind="router_ignores_disable_extensions"), dict(desc=desc))
        if qops._ext_enabled is not True:
            ctx.violation(dict(kind="extensions_left_disabled"), dict(desc=desc))
            qops._ext_enabled = True
        if ctx.counters.get("cases", 0) % 5 == 0:
            ext._lib = failing
            try:
                call("ext_failing", lambda: torch.ops.quanto.unpack(b, bits))
            finally:
                ext._lib = proxy
        for r, got in res.items():
            if got.dtype != torch.uint8 or tuple(got.shape) != tuple(want.shape) or not torch.equal(got, want):
                ctx.violation(dict(kind="unpack_route_differs_from_reference", route=r, bits=bits),
                              dict(desc=desc, got_shape=list(got.shape), want_shape=list(want.shape)))
        for v in torch.unique(b).tolist():
            ctx.see("bytes_at_operator_boundary", int(v), cap=256)

    def roundtrip_(t, bits, desc):
        rows = t.shape[0]
        tb = fp.plain_bytes(t)
        # the documented default width is 4 bits: spelled out or not, the same request
        P = PackedTensor.pack(t) if bits == 4 and (rows + t.ndim) % 2 else PackedTensor.pack(t, bits)
        if fp.plain_bytes(t) != tb:
            ctx.violation(dict(kind="pack_modifies_source", bits=bits), dict(desc=desc))
        inn, meta = fp.inner(P)
        payload = inn["_data"]
        want_rows = num.ceil_div(rows * bits, 8)
        if payload.dtype != torch.uint8 or payload.shape[0] != want_rows or tuple(payload.shape[1:]) != tuple(t.shape[1:]):
            ctx.violation(dict(kind="payload_not_dense", bits=bits),
                          dict(desc=desc, payload=list(payload.shape), dtype=str(payload.dtype), want_rows=want_rows))
        if tuple(P.shape) != tuple(t.shape) or P.dtype != torch.uint8:
            ctx.violation(dict(kind="packed_reports_wrong_shape", bits=bits), dict(desc=desc, shape=list(P.shape)))
        u = P.unpack()
        if tuple(u.shape) != tuple(t.shape) or u.dtype != torch.uint8 or not torch.equal(u, t):
            ctx.violation(dict(kind="roundtrip_lossy", bits=bits, residue=rows % (8 // bits)),
                          dict(desc=desc, first_diff=int(torch.nonzero((u.reshape(-1)[: t.numel()] != t.reshape(-1)
                                                                       [: u.numel()]))[0]) if u.numel() and t.numel()
                               and u.numel() == t.numel() else -1))
        for v in torch.unique(payload).tolist():
            ctx.see("payload_bytes", int(v), cap=256)
        ctx.see(f"residues_bits{bits}", rows % (8 // bits))
        return P, payload

    def roundtrip(t, bits, desc):
        # pack/unpack are defined for every uint8 tensor with values below 2**bits: an exception is a violation
        try:
            return roundtrip_(t, bits, desc)
        except Exception as e:
            ctx.violation(dict(kind="pack_or_unpack_raises", bits=bits, exc=type(e).__name__), dict(desc=desc, msg=str(e)[:300]))
            return None, None

    def packed_ops(P, t, bits, desc):
        if P is None:
            return
        tc = t.contiguous()
        progs = {
            "add": lambda a: a + 1,
            "eq": lambda a: a == tc,
            "lt": lambda a: a < 2,
            "reshape": lambda a: a.reshape(-1),
            "sum": lambda a: a.sum(),
            "index": lambda a: a[a.shape[0] // 2],
            "slice": lambda a: a[1:],
            "cat": lambda a: torch.cat([a, a]),
            "clone": lambda a: a.clone(),
            "to_uint8": lambda a: a.to(torch.uint8),
            "mul": lambda a: a * 3,
            "bitand": lambda a: a & 1,
            "float_sum": lambda a: a.sum(dtype=torch.float32),
            "detach": lambda a: a.detach(),
        }
        for name, f in progs.items():
            want = f(tc)
            try:
                got = f(P)
            except Exception as e:
                ctx.violation(dict(kind="packed_op_raises", op=name, exc=type(e).__name__),
                              dict(desc=desc, msg=str(e)[:200]))
                continue
            ctx.count("packed_ops")
            if isinstance(got, PackedTensor):
                got = got.unpack()
            got = got if isinstance(got, torch.Tensor) else torch.tensor(got)
            if tuple(got.shape) != tuple(want.shape) or got.dtype != want.dtype or not torch.equal(got, want):
                ctx.violation(dict(kind="packed_op_acts_on_payload", op=name, bits=bits),
                              dict(desc=desc, got_shape=list(got.shape), want_shape=list(want.shape)))
        # a random draw from a wide pool of tensor operations, every legal dimension argument included (negative ones too)
        r = ctx.crng
        pool = op_pool(r, tc)
        names = sorted(pool)
        for name in [names[int(j)] for j in r.permutation(len(names))[:12]]:
            f = pool[name]
            try:
                want = f(tc.clone())
            except Exception:
                continue  # not a legal program for this shape
            Pc = PackedTensor(P._data.clone(), bits, P.size(), P.stride())
            try:
                got = f(Pc)
            except ValueError as e:
                if name in ("int", "bool") and "uint8 only" in str(e):
                    ctx.count("documented_refusals")
                    continue
                ctx.violation(dict(kind="packed_op_raises", op=name, exc=type(e).__name__), dict(desc=desc, msg=str(e)[:200]))
                continue
            except Exception as e:
                ctx.violation(dict(kind="packed_op_raises", op=name, exc=type(e).__name__), dict(desc=desc, msg=str(e)[:200]))
                continue
            ctx.count("packed_ops")
            ctx.count("packed_ops:pool")
            ctx.see("pool_ops", name)
            if not same_result(got, want):
                ctx.violation(dict(kind="packed_op_acts_on_payload", op=name, bits=bits),
                              dict(desc=desc, got=describe(got), want=describe(want)))
        # in-place operations whose results fit in `bits` bits: the packed destination must hold the new values afterwards
        ipool = inplace_pool(r, tc)
        inames = sorted(ipool)
        for name in [inames[int(j)] for j in r.permutation(len(inames))[:2]]:
            f = ipool[name]
            plain = tc.clone()
            try:
                f(plain)
            except Exception:
                continue
            Pc = PackedTensor(P._data.clone(), bits, P.size(), P.stride())
            try:
                f(Pc)
            except Exception as e:
                ctx.violation(dict(kind="packed_op_raises", op=name, exc=type(e).__name__), dict(desc=desc, msg=str(e)[:200]))
                continue
            ctx.count("packed_ops")
            ctx.count("packed_ops:inplace")
            after = Pc.unpack()
            if torch.equal(plain, tc):
                continue  # the program changed nothing on the plain tensor either
            if not (tuple(after.shape) == tuple(plain.shape) and torch.equal(after, plain)):
                mech = "packed_destination_left_unchanged" if torch.equal(after, tc) else "other"
                ctx.violation(dict(kind="packed_inplace_op_not_applied", mechanism=mech),
                              dict(desc=desc, op=name))
        try:
            P.to(torch.float32)
            ctx.violation(dict(kind="packed_dtype_change_not_refused"), dict(desc=desc))
        except ValueError:
            ctx.count("documented_refusals")
        except Exception as e:
            ctx.violation(dict(kind="packed_dtype_change_wrong_exception", exc=type(e).__name__), dict(desc=desc))

    k = 0
    # 1. every byte value through every route, several shapes/layouts of the byte tensor
    allb = torch.arange(256, dtype=torch.int16).to(torch.uint8)
    for bits in (2, 4):
        for shape in [(256,), (16, 16), (4, 8, 8), (2, 2, 4, 16), (1, 256), (256, 1)]:
            for lname, b in gen.layouts(allb.reshape(shape), which=("contiguous", "transposed", "sliced")):
                k += 1
                if not ctx.mine(k):
                    continue
                desc = dict(kind="all_bytes", bits=bits, shape=list(shape), layout=lname)
                if not ctx.case(desc):
                    continue
                routes(b, bits, desc)
                ctx.nontrivial("allbytes", bits, shape, lname)
        # every combination of sub-byte values inside one payload byte, via pack
        n = 8 // bits
        digits = torch.stack([(torch.arange(256) // ((1 << bits) ** i)) % (1 << bits) for i in range(n)]).to(torch.uint8)
        k += 1
        if ctx.mine(k):
            desc = dict(kind="all_byte_combinations_via_pack", bits=bits, shape=list(digits.shape))
            if ctx.case(desc):
                P, payload = roundtrip(digits, bits, desc)
                if P is None:
                    continue
                if len(torch.unique(payload)) != 256:
                    ctx.inconclusive("pack of the digit matrix did not produce all 256 payload bytes")
                routes(payload, bits, desc)
                packed_ops(P, digits, bits, desc)
    # 2. every leading dimension (every residue), trailing shapes, layouts, fillings
    maxlead = 64 if ctx.tier == "quick" else 257
    fills = ["random", "max", "onehot", "ramp"]
    for bits in (2, 4):
        for lead in range(1, maxlead + 1):
            for ti, trail in enumerate(TRAILING):
                k += 1
                if not ctx.mine(k):
                    continue
                if ctx.tier == "quick" and (lead + ti) % 2 and lead > 16:
                    continue
                shape = (lead,) + trail
                fk = fills[(lead + ti) % len(fills)]
                t0 = fill(rng, fk, shape, bits)
                for lname, t in gen.layouts(t0, which=("contiguous", "transposed", "sliced") if lead <= 24 or
                                            ctx.tier == "thorough" else ("contiguous",)):
                    desc = dict(kind="roundtrip", bits=bits, shape=list(shape), layout=lname, fill=fk)
                    if not ctx.case(desc):
                        continue
                    P, payload = roundtrip(t, bits, desc)
                    if P is None:
                        continue
                    routes(payload, bits, desc)
                    if lead <= 12 or (lead % 7 == 0):
                        packed_ops(P, t, bits, desc)
                    if lead % (8 // bits) != 0 or lname != "contiguous":
                        ctx.nontrivial(bits, shape, lname, fk)
                    if ctx.counters["cases"] % 67 == 0:
                        ctx.sample(dict(desc, payload_shape=list(payload.shape)))
    # 3. leading dimensions beyond any block a chunked implementation would take at once
    for bits in (2, 4):
        for lead in (513, 1030, 4099):
            for trail in ((), (3,)):
                k += 1
                if not ctx.mine(k):
                    continue
                shape = (lead,) + trail
                t = fill(rng, "random", shape, bits)
                desc = dict(kind="roundtrip_large", bits=bits, shape=list(shape), layout="contiguous", fill="random")
                if not ctx.case(desc):
                    continue
                P, payload = roundtrip(t, bits, desc)
                if P is None:
                    continue
                routes(payload, bits, desc)
                packed_ops(P, t, bits, desc)
                ctx.count("large_leading_dimensions")
                ctx.nontrivial(bits, shape, "contiguous", "random")
    ext._lib = None
