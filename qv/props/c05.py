"""C05 — operations on quantized tensors equal the same operations on dequantized values (shadow execution)."""

import warnings

import numpy as np
import torch

from qv import gen, dispatchmon, fp, programs

META = dict(
    level="exploration",
    shards={"quick": 12, "thorough": 16},
    watchdog_s={"quick": 1500, "thorough": 5400},
    evaluations_counter="cases",
    min={"judged_steps": 5000, "steps_with_quantized_result": 500, "compared:move": 500, "compared:rescale": 100,
         "compared:requant": 50, "compared:contraction": 200, "compared:pass": 300},
    anchors=["tensor/qtensor.py:QTensor.__torch_function__", "tensor/qbytes.py:QBytesTensor.__torch_dispatch__",
             "tensor/qbits/qbits.py:QBitsTensor.__torch_dispatch__", "tensor/qtensor.py:qfallback",
             "tensor/qtensor_func.py:QTensorLinear.forward", "tensor/qtensor_func.py:linear",
             "tensor/qbytes_ops.py:mm", "tensor/qbytes_ops.py:bmm", "tensor/qbytes_ops.py:where",
             "tensor/qbytes_ops.py:copy_", "tensor/qbytes_ops.py:cat", "tensor/qbytes_ops.py:_softmax"],
    rule="case = one op program (depth 1..8) from a typed grammar over an operand pool mixing per-tensor qint8/qfloat8 "
         "activations (equal and different scales), per-axis qint8/qfloat8 weights (axis 0/-1), packed qint4/qint2 "
         "(with/without groups), plain tensors, Python scalars and 0-dim tensors, ranks 1-4, three dtypes; plus one "
         "directed program per op template x operand kind x layout. Every monitored torch function call is shadow-"
         "executed on dequantized operands and judged by class of operation. Non-trivial when the program has depth "
         ">=2 and >=1 step returning a quantized tensor; distinct by the sequence of (template, operand kinds)",
    assumptions=["tolerances per class: move = byte equality, rescale = 4 ulp, requantize = one local step of the output "
                 "scale + 4 ulp, contraction = dot_bound(c=8) against the float64 product, pass-through = 8 ulp",
                 "where() is given replacement values inside the quantized operand's range (saturating re-quantization "
                 "is outside 'one step of the output scale')",
                 "crash classes that are open known findings of C07 (int8pack kernel, _int_mm K=1) are steered around"],
)

DT = [torch.float32, torch.float16, torch.bfloat16]
RANK_OF = {"pool_contract": [2, 2, 3], "bmm": [3], "conv2d": [4], "to_copy": [1, 2, 3, 4, 4, 4], "matmul": [2, 2, 3], "t": [1, 2, 2], "cross_entropy": [2], "linear_rev": [2]}
REPEAT = {"bmm": 10, "matmul": 8, "linear": 8, "linear_rev": 6, "conv2d": 4, "cat2": 3, "stack2": 3, "where": 3, "lt": 3,
          "copy_": 3, "to_other_dtype": 3, "inplace_qdest": 4, "inplace_fdest": 3, "mm_int_route": 6, "to_copy": 3,
          "linear_reused_weight": 6, "pool_move": 14, "pool_pass": 20, "pool_contract": 6}


def crash_class(a, w, kind):
    """Known native-crash / garbage classes (probed separately in C07)."""
    try:
        K = a.shape[-1]
        wq = getattr(getattr(w, "qtype", None), "name", "")
        # anything that is not an 8-bit quantized activation reaches the kernel as a (dequantized) bfloat16 tensor
        if type(a).__name__ != "QBytesTensor" and gen.int8pack_crash_class(a.dtype, wq, K, quantized_activations=False):
            return True
    except Exception:
        pass
    return False


def shares_storage(t, a):
    """True when two quantized tensors hold an inner tensor (codes or scale) in the same storage."""
    try:
        pa = {v.untyped_storage().data_ptr() for v in fp.leaves(fp.unwrap_param(a))[0].values()}
        pt = {v.untyped_storage().data_ptr() for v in fp.leaves(fp.unwrap_param(t))[0].values()}
        return bool(pa & pt)
    except Exception:
        return False


def run_program(ctx, mon, oq, rng, wd, depth, names, directed=None, infer_steps=False):
    pool = programs.Pool(oq, rng, wd)
    roots = {}  # id(tensor) -> alias root in the *float* program (views share the root of their source)
    producer = {}  # id(tensor) -> template that produced it
    payload = {}  # id(tensor) -> payload-sharing root: rescaling ops return the operand's codes under a new scale
    shape = programs.rshape(rng)
    if directed is not None and directed[0] in RANK_OF:
        shape = programs.rshape(rng, int(rng.choice(RANK_OF[directed[0]])))
    if directed is not None and directed[1].startswith("w"):
        while len(shape) < 2 or min(shape[0], shape[-1]) < 2:
            shape = programs.rshape(rng, int(rng.choice(RANK_OF[directed[0]])) if directed[0] in RANK_OF and
                                    min(RANK_OF[directed[0]]) >= 2 else int(rng.integers(2, 5)))
    seq = []
    with torch.no_grad():
        base = [pool.fresh(shape) for _ in range(3)] + [pool.fresh(programs.rshape(rng, len(shape)))]
        if directed is not None:
            base = [pool.fresh(shape, directed[1])]
            if directed[2] == "transposed" and len(shape) >= 2:
                t0 = base[0][0]
                try:
                    base = [(t0.transpose(0, -1), directed[1] + "^T")]
                except Exception:
                    pass
        for t, k in base:
            pool.add(t, k)
            roots[id(t)] = id(t)
            payload[id(t)] = id(t)
        for step in range(depth):
            name = directed[0] if (directed is not None and step == 0) else names[rng.integers(len(names))]
            a = pool.pick()
            if a is None:
                break
            try:
                thunk = programs.TEMPLATES[name](pool, a)
            except Exception:
                ctx.count("template_setup_failed")
                continue
            mon.step_info = dict(template=name, step=step, operand=dispatchmon.kind_of(a), shape=list(a.shape),
                                 dtype=str(wd))
            before = ctx.counters.get("steps_with_quantized_result", 0)
            live = [(t, fp.tensor_fp(t)) for t, _ in pool.items]
            raised = False
            inplace_root = None
            if name == "copy_" and rng.random() < 0.35 and hasattr(a, "qtype") and type(a).__name__ == "QBytesTensor" \
                    and a.axis is None:
                # in-place write into a live tensor: in the float program only its aliases (views) change
                src = pool.oq.quantize_activation(pool.randn(tuple(a.shape), mag=float(a._scale.abs()) * 300), a.qtype,
                                                  (a._scale.detach() * 3.0).clone())
                thunk = lambda: a.copy_(src)  # noqa
                inplace_root = roots.get(id(a), id(a))
                inplace_payload = payload.get(id(a), id(a))
                ctx.count("inplace_writes_into_live_tensors")
            try:
                # one step in five runs under torch.inference_mode() (the recommended inference context) on operands that
                # were created outside it, as parameters and cached tensors are
                if infer_steps and rng.random() < 0.2:
                    ctx.count("steps_under_inference_mode")
                    with torch.inference_mode():
                        out = thunk()
                else:
                    out = thunk()
            except Exception:
                raised = True
            if inplace_root is not None:
                live = [(t, f0) for t, f0 in live if roots.get(id(t), id(t)) != inplace_root]
            # No template writes into a tensor of the pool (copy_ destinations are fresh copies): whatever the step
            # did, every live tensor must still hold the same bits (aliasing between a result and its source shows here)
            ctx.count("live_tensor_purity_checks", len(live))
            for t, f0 in live:
                if fp.tensor_fp(t) != f0:
                    ctx.violation(dict(prop="C05", kind="live_tensor_modified_by_unrelated_step", template=name,
                                       operand=dispatchmon.coarse([dispatchmon.kind_of(t) or "plain"]),
                                       path="live_destination" if inplace_root is not None else "fresh_destination",
                                       mechanism="shares_inner_tensor_with_destination" if (
                                           inplace_root is not None and shares_storage(t, a)) else "other"),
                                  dict(step=mon.step_info, modified=dispatchmon.describe(t)))
                    mon.taint(t)
            if raised:
                ctx.count("steps_raised")
                seq.append((name, dispatchmon.kind_of(a), "raised"))
                continue
            qres = ctx.counters.get("steps_with_quantized_result", 0) > before
            seq.append((name, dispatchmon.kind_of(a), "q" if qres else "f"))
            outs = out if isinstance(out, (list, tuple)) else [out]
            for o in outs[:3]:
                if isinstance(o, torch.Tensor) and not mon.is_tainted(o) and o.dtype in (torch.float32, torch.float16,
                                                                                         torch.bfloat16):
                    if torch.isfinite(o.dequantize() if hasattr(o, "qtype") else o).all():
                        pool.add(o, name)
                        producer[id(o)] = name
                        # views alias their source in the float program; everything else is a fresh tensor
                        viewlike = name in programs.SHAPE_OPS or name in ("detach", "copy_", "contiguous", "to_dtype", "to_cpu")  # to_copy is fresh
                        roots[id(o)] = roots.get(id(a), id(a)) if viewlike else id(o)
                        payload[id(o)] = payload.get(id(a), id(a)) if (viewlike or name in (
                            "mul_scalar", "torch.mul_scalar", "div_scalar", "neg")) else id(o)
    mon.step_info = None
    return seq


def run(ctx):
    import optimum.quanto as oq

    warnings.simplefilter("ignore")
    rng = ctx.rng
    names = sorted(programs.TEMPLATES)
    # avoid crash classes: wrap linear templates
    orig_linear = programs.TEMPLATES["linear"]
    n_prog = (2400 if ctx.tier == "quick" else 60_000) // ctx.nshards
    mon = dispatchmon.Monitor(ctx, judge_c05=True, judge_c06="taint")
    import torch.nn.functional as F

    # quanto registers its function table lazily, keyed by the function objects it finds in torch.nn.functional at that
    # moment: import it before the guard below replaces F.linear, or the guard itself would become the key and the
    # quantized linear path would never be taken
    import optimum.quanto.tensor.qtensor_func  # noqa: F401
    import optimum.quanto.tensor.qbytes_ops  # noqa: F401
    import optimum.quanto.tensor.qbits.qbits_ops  # noqa: F401

    real_linear = F.linear

    def guarded_linear(*args, **kwargs):
        # arguments are handed on exactly as written (positional or by keyword): the spelling is part of the program
        a = args[0] if args else kwargs.get("input")
        w = args[1] if len(args) > 1 else kwargs.get("weight")
        if crash_class(a, w, "linear"):
            ctx.count("steered_around_known_crash_class")
            raise RuntimeError("skipped: known crash class (probed in C07)")
        return real_linear(*args, **kwargs)

    F.linear = guarded_linear
    try:
        with mon:
            # directed programs: every template x operand kind x layout
            kinds = ["act8", "acte4", "acte5", "w8a0", "w8a-1", "wf8a0", "wf8a-1", "w4", "w2"]
            k = 0
            for name in names:
                for kind in kinds:
                    for lay in ("contiguous", "transposed"):
                        for rep in range(REPEAT.get(name, 1)):
                            k += 1
                            if not ctx.mine(k):
                                continue
                            wd = DT[k % 3]
                            if not ctx.case(dict(directed=name, kind=kind, layout=lay, dtype=str(wd), rep=rep)):
                                continue
                            seq = run_program(ctx, mon, oq, ctx.crng, wd, 2, names, directed=(name, kind, lay))
                            ctx.count("directed_programs")
                            if len(seq) >= 2 and any(s[2] == "q" for s in seq):
                                ctx.nontrivial("d", tuple(seq))
            # directed: 0-dim quantized tensors against every kind of scalar (python numbers, 0-dim tensors of the working
            # dtype / float64 / int64, one-element tensors): type promotion differs from tensors with dimensions
            for kind in ("act8", "acte4", "acte5"):
                for sk in range(programs.N_SCALAR_KINDS):
                    for opn in ("mul", "rmul", "div", "torch.mul", "torch.div"):
                        k += 1
                        if not ctx.mine(k):
                            continue
                        wd = DT[k % 3]
                        if not ctx.case(dict(directed="zero_dim_" + opn, kind=kind, scalar_kind=sk, dtype=str(wd))):
                            continue
                        r_ = ctx.crng
                        pool = programs.Pool(oq, r_, wd)
                        with torch.no_grad():
                            a0, _ = pool.fresh((), kind)
                            s0 = programs.scalar(r_, sk)
                            mon.step_info = dict(template="zero_dim_" + opn, scalar_kind=sk, dtype=str(wd))
                            try:
                                if opn == "mul":
                                    a0 * s0
                                elif opn == "rmul":
                                    s0 * a0
                                elif opn == "div":
                                    a0 / s0
                                elif opn == "torch.mul":
                                    torch.mul(a0, s0)
                                else:
                                    torch.div(a0, s0)
                            except Exception:
                                ctx.count("steps_raised")
                            mon.step_info = None
                        ctx.count("directed_zero_dim_programs")
            # directed: the smallest program of each class the random programs reach only now and then (so that what a
            # quick run reports about them does not depend on the draw)
            def d_rms_norm(pool):
                a = pool.weight((8, 16), "qint4", 0, None)
                return F.rms_norm(a, (16,))

            def d_slice_assign(pool):
                d, _ = pool.fresh((4, 8), "act8")
                q, _ = pool.fresh((4, 8), "act8")
                d[1] = q[1]
                return d

            def d_copy_pt_pa(pool):
                d, _ = pool.fresh((4, 8), "act8")
                w, _ = pool.fresh((4, 8), "w8a0")
                return d.copy_(w)

            def d_copy_pa_pt(pool):
                d, _ = pool.fresh((4, 8), "act8")
                w, _ = pool.fresh((4, 8), "w8a0")
                return w.copy_(d)

            def d_linear_keywords(pool):
                a, _ = pool.fresh((3, 8), "act8")
                w, _ = pool.fresh((5, 8), "w8a0")
                return F.linear(input=a, weight=w, bias=None)

            directed = [("rms_norm_packed_half", d_rms_norm), ("slice_assign", d_slice_assign), ("copy_pt_pa", d_copy_pt_pa),
                        ("copy_pa_pt", d_copy_pa_pt), ("linear_keywords", d_linear_keywords)]

            # a plain 0-dim / one-element numerator over a quantized denominator (division does not commute)
            def mk_rdiv(kind, shape, sk, spell):
                def prog(pool):
                    q, _ = pool.fresh(shape, kind)
                    s0 = programs.scalar(pool.rng, sk)
                    return s0 / q if spell == "op" else (torch.div(s0, q) if isinstance(s0, torch.Tensor) else torch.true_divide(s0, q))
                return prog

            for kind in ("act8", "acte4", "w8a0"):
                for shape in ((), (4,), (3, 5)):
                    if kind.startswith("w") and len(shape) < 2:
                        continue
                    for sk in range(programs.N_SCALAR_KINDS):
                        for spell in ("op", "fn"):
                            directed.append((f"rdiv_{kind}_{len(shape)}d_s{sk}_{spell}", mk_rdiv(kind, shape, sk, spell)))

            # cat / stack of per-axis operands that share their scales (the same tensor, its clone, its detach), every dim
            def mk_join(kind, dim, fn, partner):
                def prog(pool):
                    a, _ = pool.fresh((4, 6), kind)
                    b = {"self": lambda: a, "clone": lambda: a.clone(), "detach": lambda: a.detach()}[partner]()
                    return fn([a, b], dim)
                return prog

            for kind in ("w8a0", "w8a-1", "wf8a0", "wf8a-1"):
                for dim in (0, 1, -1, -2):
                    for fname, fn in (("cat", torch.cat), ("stack", torch.stack)):
                        for partner in ("self", "clone", "detach"):
                            directed.append((f"{fname}_{kind}_dim{dim}_{partner}", mk_join(kind, dim, fn, partner)))

            # stepped slices along and across the kept axis
            def mk_slice(kind, sl):
                def prog(pool):
                    a, _ = pool.fresh((8, 10), kind)
                    return a[sl]
                return prog

            for kind in ("w8a0", "w8a-1", "wf8a0", "wf8a-1", "act8"):
                for si, sl in enumerate([slice(None, None, 2), slice(1, None, 3), slice(4, None, 4), (Ellipsis, slice(None, None, 2)),
                                         (slice(None), slice(1, 8, 3)), (slice(None, None, 2), slice(None, None, 3)), slice(-3, None)]):
                    directed.append((f"slice_{kind}_{si}", mk_slice(kind, sl)))

            for dname, prog in directed:
                for wd in (torch.float16, torch.float32):
                    k += 1
                    if not ctx.mine(k):
                        continue
                    if not ctx.case(dict(directed="minimal_" + dname, dtype=str(wd))):
                        continue
                    pool = programs.Pool(oq, ctx.crng, wd)
                    with torch.no_grad():
                        mon.step_info = dict(template="minimal_" + dname, dtype=str(wd))
                        try:
                            prog(pool)
                        except Exception:
                            ctx.count("steps_raised")
                        mon.step_info = None
                    ctx.count("directed_minimal_programs")
            for i in range(n_prog):
                wd = DT[int(rng.integers(3))]
                depth = int(rng.integers(1, 9))
                if not ctx.case(dict(program=i, dtype=str(wd), depth=depth)):
                    continue
                seq = run_program(ctx, mon, oq, ctx.crng, wd, depth, names)
                ctx.count("random_programs")
                if len(seq) >= 2 and any(s[2] == "q" for s in seq):
                    ctx.nontrivial("r", tuple(seq))
                if i % 101 == 0:
                    ctx.sample(dict(dtype=str(wd), program=[list(s) for s in seq]))
    finally:
        F.linear = real_linear
    if ctx.tier == "thorough" and ctx.shard == 0 and ctx.only_case is None:
        from qv import suite

        suite.run_suite_under_monitor(ctx, "C05")
    if ctx.counters.get("monitor_error", 0) > max(20, 0.01 * ctx.counters.get("monitored_calls", 0)):
        ctx.inconclusive(f"monitor errors: {ctx.counters.get('monitor_error')} "
                         f"{sorted(ctx.sets.get('monitor_errors', []))[:5]}")
