"""C06 — a quantized tensor's reported metadata always matches what it holds (invariant at the dispatch hooks)."""

import copy
import io
import warnings

import numpy as np
import torch

from qv import dispatchmon, fp, oracles, programs

META = dict(
    level="exploration",
    shards={"quick": 12, "thorough": 16},
    watchdog_s={"quick": 1500, "thorough": 5400},
    evaluations_counter="cases",
    min={"tensors_checked": 5000, "c06_checked_at_dispatch": 1000, "c06_checked_at_function": 1000,
         "c06_move_checks": 300, "roundtrip_checks": 40, "freeze_checks": 50, "deepcopy_checks": 50},
    anchors=["tensor/qtensor.py:QTensor.__torch_function__",
             "tensor/qbytes.py:QBytesTensor.__torch_dispatch__",
             "tensor/qbits/qbits.py:QBitsTensor.__torch_dispatch__",
             "tensor/qbytes.py:QBytesTensor.__tensor_flatten__",
             "tensor/qbits/qbits.py:QBitsTensor.__tensor_flatten__",
             "tensor/qbits/qbits_ops.py:_to_copy",
             "tensor/qbytes_ops.py:_to_copy",
             "tensor/qbits/qbits_ops.py:clone",
             "tensor/qbytes_ops.py:clone",
             "tensor/qbits/qbits.py:QBitsTensor.load_from_state_dict",
             "tensor/qbytes.py:QBytesTensor.load_from_state_dict",
             "nn/qmodule.py:QModuleMixin.freeze"],
    rule="case = one history: an initial quantized tensor (qtype x axis x group x shape x dtype x layout) followed by a "
         "random sequence (length 1..10) of intercepted shape ops, moves/copies (to, clone, detach, contiguous, copy_, "
         "deepcopy), rescalings, state_dict round trips through a one-layer module, and freeze; the invariant is "
         "evaluated on every quantized tensor returned at both dispatch entry points and on every API result. "
         "Non-trivial when the history has >=1 shape-changing op and >=1 move/copy/serialize step; distinct by the "
         "sequence of (step, operand kind)",
    assumptions=["inner tensors and meta are read through __tensor_flatten__()", "scale layout for per-axis 8-bit "
                 "tensors: all dims 1 except the declared axis; for grouped low-bit tensors only counts are checked"],
)

DT = [torch.float32, torch.float16, torch.bfloat16]
# every template: most arithmetic returns float tensors (the history then stops), but whatever comes back quantized - also
# from an operation that should not have produced a quantized tensor - is checked
# contractions and the pass-through pools return plain tensors, which end a history: they are C05's business
HIST_OPS = sorted(set(programs.TEMPLATES) - {"conv2d", "bmm", "matmul", "linear", "linear_rev", "cross_entropy", "pool_pass",
                                             "pool_contract", "linear_reused_weight", "mm_int_route"}) + \
    sorted(programs.SHAPE_OPS | programs.MOVE_OPS)  # shape ops and moves twice as likely


def direct_check(ctx, t, site, **expect):
    t = fp.unwrap_param(t)
    ctx.count("tensors_checked")
    fails = oracles.check_meta(t, **expect)
    for f in fails:
        ctx.violation(dict(prop="C06", kind="meta:" + f["kind"], op=site, operand=dispatchmon.kind_of(t) or "?"),
                      dict(fail=f, level="api", desc=dispatchmon.describe(t)))
    return not fails


def codes_of(t):
    t = fp.unwrap_param(t)
    d = fp.inner(t)[0]["_data"]
    return oracles.plain(d.unpack()) if fp.is_wrapper(d) else oracles.plain(d)


def same_tensor(ctx, a, b, site):
    """Moves and copies never alter codes/scales/zero-points."""
    a, b = fp.unwrap_param(a), fp.unwrap_param(b)
    ia, ib = fp.inner(a)[0], fp.inner(b)[0]
    ok = torch.equal(codes_of(a), codes_of(b))
    ok = ok and fp.plain_bytes(oracles.plain(ia["_scale"])) == fp.plain_bytes(oracles.plain(ib["_scale"]))
    if "_zeropoint" in ia:
        ok = ok and "_zeropoint" in ib and fp.plain_bytes(oracles.plain(ia["_zeropoint"])) == \
            fp.plain_bytes(oracles.plain(ib["_zeropoint"]))
    ok = ok and a.qtype == b.qtype and a.axis == b.axis and tuple(a.shape) == tuple(b.shape) and a.dtype == b.dtype
    if not ok:
        ctx.violation(dict(prop="C06", kind="copy_alters_tensor", op=site, operand=dispatchmon.kind_of(a) or "?"),
                      dict(a=dispatchmon.describe(a), b=dispatchmon.describe(b)))


def module_roundtrip(ctx, oq, q, wd):
    """state_dict round trip of a frozen one-layer module holding q as its weight (2-D only)."""
    q = fp.unwrap_param(q)
    if q.ndim != 2 or type(q).__name__ not in ("QBytesTensor", "QBitsTensor") or q.axis != 0:
        return None
    out_f, in_f = q.shape
    m = oq.QLinear(in_f, out_f, bias=False, dtype=wd, weights=q.qtype)
    m.weight = torch.nn.Parameter(q.detach().contiguous() if False else q.detach())
    if hasattr(q, "_group_size"):
        m.weight_group_size = q._group_size
    sd = m.state_dict()
    for k, v in sd.items():
        if type(v) not in (torch.Tensor, str):
            ctx.violation(dict(prop="C06", kind="state_dict_value_type", op="state_dict"), dict(key=k, type=str(type(v))))
    buf = io.BytesIO()
    torch.save(sd, buf)
    buf.seek(0)
    sd2 = torch.load(buf, weights_only=True)
    # the target is what a user may have at hand: another float dtype, another 8-bit qtype, already frozen or not; the
    # state_dict decides what the module holds afterwards
    rng = ctx.crng
    wd2 = DT[int(rng.integers(3))] if rng.random() < 0.4 else wd
    tq = q.qtype
    if q.qtype.bits == 8 and rng.random() < 0.4:
        tq = oq.qtypes[["qint8", "qfloat8_e4m3fn", "qfloat8_e5m2"][int(rng.integers(3))]]
    m2 = oq.QLinear(in_f, out_f, bias=False, dtype=wd2, weights=tq)
    if hasattr(q, "_group_size"):
        m2.weight_group_size = q._group_size
    target = "unfrozen"
    if rng.random() < 0.5:
        m2.freeze()
        target = "frozen"
    ctx.see("roundtrip_targets", f"{target}:{'same' if wd2 == wd else 'other'}_dtype:{'same' if tq == q.qtype else 'other'}_qtype")
    m2.load_state_dict(sd2, assign=bool(rng.random() < 0.25))
    ctx.count("roundtrip_checks")
    w2 = fp.unwrap_param(m2.weight)
    if not dispatchmon.is_q(w2):
        ctx.violation(dict(prop="C06", kind="deserialized_weight_not_quantized", op="load_state_dict"), {})
        return None
    direct_check(ctx, w2, "load_state_dict", expect_qtype=q.qtype.name, expect_axis=q.axis)
    same_tensor(ctx, q, w2, "state_dict_roundtrip")
    return w2


def initial(oq, rng, wd, pool):
    kinds = ["act8", "acte4", "acte5", "w8a0", "w8a-1", "wf8a0", "wf8a-1", "w4", "w2", "w4", "w2"]
    kind = kinds[rng.integers(len(kinds))]
    shape = programs.rshape(rng)
    if kind.startswith("w"):
        while len(shape) < 2 or min(shape[0], shape[-1]) < 2:
            shape = programs.rshape(rng, int(rng.integers(2, 5)))
    t, _ = pool.fresh(shape, kind)
    lay = ["contiguous", "transposed", "sliced"][rng.integers(3)]
    return t, kind, lay, shape


def run(ctx):
    import optimum.quanto as oq

    warnings.simplefilter("ignore")
    rng = ctx.rng
    n_hist = (1500 if ctx.tier == "quick" else 40_000) // ctx.nshards
    mon = dispatchmon.Monitor(ctx, judge_c05=False, judge_c06=True)
    with mon, torch.no_grad():
        # directed: every kind of scalar operand (python numbers, 0-dim and one-element tensors of several dtypes) against
        # per-tensor and per-axis tensors of ranks 1-3: whatever comes back quantized is judged at dispatch
        k = 0
        for kind in ("act8", "acte4", "w8a0", "w8a-1", "wf8a0"):
            for shape in ((4,), (3, 5), (2, 3, 4)):
                if kind.startswith("w") and len(shape) < 2:
                    continue
                for sk in range(programs.N_SCALAR_KINDS):
                    for opn in ("mul", "rmul", "div", "torch.mul", "torch.div"):
                        k += 1
                        if not ctx.mine(k):
                            continue
                        wd = DT[k % 3]
                        if not ctx.case(dict(directed="scalar_" + opn, kind=kind, shape=list(shape), scalar_kind=sk, dtype=str(wd))):
                            continue
                        r_ = ctx.crng
                        pool = programs.Pool(oq, r_, wd)
                        a0, _ = pool.fresh(shape, kind)
                        s0 = programs.scalar(r_, sk)
                        try:
                            out = {"mul": lambda: a0 * s0, "rmul": lambda: s0 * a0, "div": lambda: a0 / s0,
                                   "torch.mul": lambda: torch.mul(a0, s0), "torch.div": lambda: torch.div(a0, s0)}[opn]()
                            if isinstance(out, torch.Tensor) and dispatchmon.is_q(out):
                                direct_check(ctx, out, "scalar_" + opn)
                        except Exception:
                            ctx.count("steps_raised")
                        ctx.count("directed_scalar_programs")
        for i in range(n_hist):
            wd = DT[int(rng.integers(3))]
            length = int(rng.integers(1, 11))
            if not ctx.case(dict(history=i, dtype=str(wd), length=length)):
                continue
            r = ctx.crng
            pool = programs.Pool(oq, r, wd)
            if r.random() < 0.25:
                # the quantizer given an explicit scale: right layout, or the layout of the *other* end axis (same number of
                # values when the tensor is square): it either refuses (ValueError) or returns a consistent tensor
                n = int(r.choice([2, 3, 6, 8]))
                shp = [(n, n), (n, 3, n), (n, n, 2)][int(r.integers(3))]
                ax = int(r.choice([0, -1]))
                other = -1 if ax == 0 else 0
                xs = pool.randn(shp)
                qtn_ = ["qint8", "qfloat8_e4m3fn", "qfloat8_e5m2"][int(r.integers(3))]
                use = ax if r.random() < 0.4 else other
                try:
                    sc_ = oq.absmax_scale(xs, oq.qtypes[qtn_], use)
                    tq = oq.SymmetricQuantizer.apply(xs, oq.qtypes[qtn_], ax, sc_)
                    ctx.count("explicit_scale_accepted")
                    direct_check(ctx, tq, "SymmetricQuantizer.apply", expect_qtype=qtn_)
                except ValueError:
                    ctx.count("explicit_scale_refused")
                except Exception as e:
                    ctx.violation(dict(prop="C06", kind="explicit_scale_raises_other_exception", exc=type(e).__name__),
                                  dict(shape=list(shp), axis=ax, scale_axis=use, msg=str(e)[:200]))
            t, kind, lay, shape = initial(oq, r, wd, pool)
            direct_check(ctx, t, "quantize")
            if lay == "transposed" and t.ndim >= 2:
                try:
                    t = t.transpose(0, -1)
                except Exception:
                    pass
            elif lay == "sliced" and t.ndim >= 1 and t.shape[0] > 1:
                try:
                    t = t[::2]
                except Exception:
                    pass
            seq = [("init", kind, lay)]
            cur = t
            for step in range(length):
                c = r.random()
                mon.step_info = dict(history=i, step=step, dtype=str(wd))
                try:
                    if c < 0.08 and dispatchmon.is_q(cur):
                        cp = copy.deepcopy(cur)
                        ctx.count("deepcopy_checks")
                        if direct_check(ctx, cp, "deepcopy"):
                            same_tensor(ctx, cur, cp, "deepcopy")
                        seq.append(("deepcopy", dispatchmon.kind_of(cur), ""))
                        cur = cp
                        continue
                    if c < 0.20 and dispatchmon.is_q(cur):
                        w2 = module_roundtrip(ctx, oq, cur, wd)
                        if w2 is not None:
                            seq.append(("state_dict_roundtrip", dispatchmon.kind_of(cur), ""))
                            cur = w2
                            continue
                    if c < 0.26:
                        # freeze of a one-layer module: the frozen weight must satisfy the invariant for the request
                        out_f, in_f = int(r.choice([2, 8, 17, 32])), int(r.choice([4, 16, 33, 160, 256]))
                        wq = ["qint8", "qfloat8", "qfloat8_e5m2", "qint4", "qint2"][r.integers(5)]
                        lin = torch.nn.Sequential(torch.nn.Linear(in_f, out_f)).to(wd)
                        oq.quantize(lin, weights=oq.qtypes[wq])
                        oq.freeze(lin)
                        ctx.count("freeze_checks")
                        w = fp.unwrap_param(lin[0].weight)
                        if dispatchmon.is_q(w):
                            direct_check(ctx, w, "freeze", expect_qtype=wq, expect_axis=0 if out_f > 1 else "any")
                            seq.append(("freeze", wq, ""))
                            if r.random() < 0.5:
                                cur = w
                        continue
                    name = HIST_OPS[r.integers(len(HIST_OPS))]
                    if not isinstance(cur, torch.Tensor) or not dispatchmon.is_q(cur) or mon.is_tainted(cur):
                        break
                    thunk = programs.TEMPLATES[name](pool, cur)
                    out = thunk()
                except Exception:
                    ctx.count("steps_raised")
                    continue
                outs = list(out) if isinstance(out, (list, tuple)) else [out]
                nxt = None
                for o in outs:
                    if dispatchmon.is_q(o):
                        if not mon.is_tainted(o):
                            direct_check(ctx, o, name)
                            nxt = o if nxt is None else nxt
                seq.append((name, dispatchmon.kind_of(cur), "q" if nxt is not None else "f"))
                if nxt is not None:
                    cur = nxt
            mon.step_info = None
            names = [s[0] for s in seq]
            if any(n in programs.SHAPE_OPS for n in names) and any(
                    n in programs.MOVE_OPS or n in ("deepcopy", "state_dict_roundtrip") for n in names):
                ctx.nontrivial(tuple(seq))
            if i % 67 == 0:
                ctx.sample(dict(dtype=str(wd), history=[list(s) for s in seq]))
    if ctx.tier == "thorough" and ctx.shard == 0 and ctx.only_case is None:
        from qv import suite

        suite.run_suite_under_monitor(ctx, "C06")
    ctx.counters["tensors_checked"] = ctx.counters.get("tensors_checked", 0) + ctx.counters.get(
        "c06_checked_at_dispatch", 0) + ctx.counters.get("c06_checked_at_function", 0)
    if ctx.counters.get("monitor_error", 0) > max(20, 0.01 * ctx.counters.get("monitored_calls", 0)):
        ctx.inconclusive(f"monitor errors: {ctx.counters.get('monitor_error')} "
                         f"{sorted(ctx.sets.get('monitor_errors', []))[:5]}")
