"""C07 — quantized matmul/linear kernels compute scale-corrected products on every path."""

import warnings

import numpy as np
import torch
import torch.nn.functional as F

from qv import fp, num, oracles

F64 = torch.float64

META = dict(
    level="exploration",
    shards={"quick": 12, "thorough": 16},
    watchdog_s={"quick": 1500, "thorough": 5400},
    evaluations_counter="cases",
    min={"cases": 3000, "judged:linear": 2000, "judged:exact": 800, "route:fn:qbytes_mm": 100, "route:fn:qbytes_int_mm": 100,
         "route:fn:qbytes_int8pack_mm": 20, "route:op:qbytes_mm": 500, "judged:mm": 300, "judged:bmm": 100,
         "products_after_inplace_weight_update": 100},
    anchors=["tensor/qtensor_func.py:QTensorLinear.forward",
             "library/qbytes_mm.py:qbytes_mm_impl_cpu",
             "library/qbytes_mm.py:qbytes_mm",
             "library/qbytes_mm.py:qbytes_int_mm",
             "library/qbytes_mm.py:qbytes_int8pack_mm",
             "library/qbytes_mm.py:int_mm",
             "tensor/qbytes_ops.py:mm",
             "tensor/qbytes_ops.py:bmm"],
    rule="case = operand set (rows x in_features x out_features x batch rank x dtype x activation kind {float, qint8, "
         "e4m3, e5m2} x weight kind {qint8/e4m3/e5m2 per-axis, per-tensor, qint4, qint2 with/without groups} x bias) in "
         "mode 'exact' (small integer codes, power-of-two scales, dyadic bias: result must be bit-identical to the "
         "float64 product whenever every partial sum is exactly representable) or 'realistic' (row scales spread over "
         "decades, saturating codes: dot-product bound); judged on F.linear, matmul/mm/bmm, torch.ops.quanto.qbytes_mm "
         "and on each route function called directly. Non-trivial when the shape hits a threshold (rows 16/17, features "
         "not multiple of 4/8/32, batch rank >=2); distinct by configuration tuple",
    assumptions=["reference = float64 product of the dequantized operands (+ bias)", "tolerance (realistic) = "
                 "8*eps_out*(|ref|+|bias|) + 2*K*eps_fp32*sum|x.w| + 2*eps_out*sum|x.w| (rounding of the dequantized "
                 "operands in the working dtype)", "CUDA/MPS routes are not executed",
                 "native crash classes are probed in sacrificial cases at the end of shard 0"],
)

ROWS = [1, 2, 7, 8, 9, 15, 16, 17, 24, 31, 32, 33, 64]
FEATS = [1, 3, 4, 5, 8, 12, 16, 31, 32, 33, 64, 100, 128, 129, 256, 512]
DT = [torch.float32, torch.float16, torch.bfloat16]
MANT = {torch.float32: 24, torch.float16: 11, torch.bfloat16: 8}
ACTS = ["float", "qint8", "qfloat8_e4m3fn", "qfloat8_e5m2"]
WEIGHTS = ["qint8", "qint8", "qfloat8_e4m3fn", "qfloat8_e5m2", "qint8_pt", "qint4", "qint2", "qint4_g", "qint2_g",
           "qint8_lastaxis", "qfloat8_lastaxis"]  # *_lastaxis: one scale per input feature (scales along the contraction)


def ints(rng, shape, lo, hi):
    return torch.from_numpy(rng.integers(lo, hi + 1, size=shape)).to(F64)


def pow2(rng, lo, hi, shape=()):
    return torch.pow(torch.tensor(2.0, dtype=F64), torch.from_numpy(np.asarray(rng.integers(lo, hi + 1, size=shape))).to(F64))


def build(ctx, oq, rng, cfg):
    """Returns (x, w, bias, notes). Uses only public quantization entry points."""
    wd, act, wk, rows, K, N, brank, has_bias, mode = (cfg[k] for k in ("wd", "act", "wk", "rows", "K", "N", "brank", "bias",
                                                                       "mode"))
    bshape = {1: (), 2: (rows,), 3: (2, rows), 4: (2, 1, rows)}[brank]
    xshape = tuple(bshape) + (K,)
    qt = oq.qtypes
    lowbit = wk.startswith("qint4") or wk.startswith("qint2")
    bits = 4 if "qint4" in wk else 2
    if mode == "exact":
        p = MANT[wd]
        # weights: integer codes times a power-of-two row scale
        if lowbit:
            lo, hi = -(2 ** (bits - 1)), 2 ** (bits - 1) - 1
            cw = ints(rng, (N, K), lo, hi)
            gs = cfg.get("gs")
            g = gs or K
            for j in range(0, K, g):  # every group holds both extremes so that the step is exactly the unit
                if g >= 2:
                    cw[:, j] = lo
                    cw[:, j + 1] = hi
            bw = hi + 1
            wexp = pow2(rng, -6, 2, (N, 1)) if gs is None else pow2(rng, -6, 2, (1, 1)).expand(N, 1)
        else:
            bw = 3 if wd == torch.bfloat16 else 7
            cw = ints(rng, (N, K), -bw, bw)
            wexp = pow2(rng, -6, 2, (N, 1)) if wk != "qint8_pt" else pow2(rng, -6, 2, (1, 1)).expand(N, 1)
            if K >= 2:
                cw[:, 0] = 127.0 * torch.from_numpy(rng.choice([-1.0, 1.0], size=N))  # pins absmax/127 to the unit
        wf = (cw * wexp).to(wd)
        bx = 1 if wd == torch.bfloat16 else 3
        cx = ints(rng, xshape, -bx, bx)
        if not lowbit and K >= 2:
            cx[..., 0] = 0  # the pinned weight column does not contribute
        sx = pow2(rng, -5, 3)
        xf = (cx * sx).to(wd)
    else:
        row_mag = torch.from_numpy(np.exp(rng.uniform(np.log(1e-2), np.log(1e2), size=(N, 1))))
        xmag = float(np.exp(rng.uniform(np.log(0.05), np.log(20))))
        if rng.random() < 0.12:
            # large activations on small weights: the product stays far inside the dtype's range, a sum accumulated in raw
            # code units (before the weight scale is applied) would not in half precision
            xmag = float(rng.choice([100.0, 250.0, 400.0]))
            row_mag = row_mag.clamp(max=3e-2)
        wf = (torch.from_numpy(rng.standard_normal((N, K))) * row_mag).to(wd)
        xf = (torch.from_numpy(rng.standard_normal(xshape)) * xmag).to(wd)
        sx = None
    # memory layout of the weight source: column-major storage (what a transposed checkpoint tensor looks like) keeps the
    # values; the quantized tensor inherits the strides
    wlay = cfg.get("wlay", "contiguous")
    if wlay == "transposed_storage" and not lowbit:
        wf = wf.t().contiguous().t()
    # quantize the weight through the public API
    if lowbit:
        gs = cfg.get("gs")
        w = oq.quantize_weight(wf, qt["qint4" if bits == 4 else "qint2"], 0, gs)
    elif wk == "qint8_pt":
        sc = (wf.abs().max().to(F64) / 127).to(wd)
        w = oq.quantize_activation(wf, qt["qint8"], sc)
        if wlay == "expanded_rows" and mode != "exact":
            w = w[:1].expand(N, K)  # every output feature shares one row (stride 0)
    elif wk.endswith("_lastaxis"):
        w = oq.quantize_weight(wf, qt["qint8" if wk.startswith("qint8") else "qfloat8_e4m3fn"], -1)
    else:
        w = oq.quantize_weight(wf, qt[wk], 0)
    # memory layout of the activations: the source that is quantized is contiguous, the operand handed to the kernels is a
    # view of it (same values for transposed / sliced; stride-0 expansions only in realistic mode, where values are free)
    xlay = cfg.get("xlay", "contiguous")
    if brank < 2 and xlay in ("transposed", "expanded_col", "expanded_row"):
        xlay = "contiguous"
    if mode == "exact" and xlay.startswith("expanded"):
        xlay = "transposed"
    if xlay == "transposed":
        xsrc, post = xf.transpose(-1, -2).contiguous(), (lambda t: t.transpose(-1, -2))
    elif xlay == "sliced":
        big = torch.zeros(tuple(xf.shape[:-1]) + (2 * K,), dtype=wd)
        big[..., ::2] = xf
        big[..., 1::2] = xf.flip(-1)
        xsrc, post = big, (lambda t: t[..., ::2])
    elif xlay == "col_range":
        # a range of columns of a wider tensor: dense rows (last stride 1) spaced by a larger row stride
        big = torch.zeros(tuple(xf.shape[:-1]) + (2 * K,), dtype=wd)
        big[..., :K] = xf
        big[..., K:] = xf.flip(-1)
        xsrc, post = big, (lambda t: t[..., :K])
    elif xlay == "expanded_col":
        xsrc, post = xf[..., :1].contiguous(), (lambda t: t.expand(xshape))
    elif xlay == "expanded_row":
        xsrc, post = xf[..., :1, :].contiguous(), (lambda t: t.expand(xshape))
    else:
        xsrc, post = xf, (lambda t: t)
    if act == "float":
        x = post(xsrc)
    else:
        aq = qt[act]
        if mode == "exact":
            sc = sx.to(wd)
        else:
            qmax = 127.0 if act == "qint8" else float(torch.finfo(aq.dtype).max)
            sat = float(rng.choice([1.0, 1.0, 0.5]))  # sometimes saturating codes
            sc = (xsrc.abs().max().to(F64) * sat / qmax).clamp(min=1e-6).to(wd)
        x = post(oq.quantize_activation(xsrc, aq, sc))
    if tuple(x.shape) != tuple(xshape):
        raise AssertionError(f"harness: layout {xlay} produced shape {tuple(x.shape)} instead of {tuple(xshape)}")
    cfg["xlay_used"] = xlay
    bias = None
    if has_bias:
        if mode == "exact":
            unit = (sx if sx is not None else torch.tensor(1.0, dtype=F64)) * wexp.reshape(-1)
            bias = (ints(rng, (N,), -2, 2) * unit).to(wd)
        else:
            bias = torch.from_numpy(rng.standard_normal(N)).to(wd)
    return x, w, bias


def dq(t):
    return oracles.plain(t.dequantize()) if hasattr(t, "qtype") else oracles.plain(t)


def judge(ctx, cfg, route, out, x, w, bias, transpose_w=True):
    """Compare one result with the float64 reference of the dequantized operands."""
    wd = cfg["wd"]
    sig0 = dict(route=route, act=("float" if cfg["act"] == "float" else ("float8" if "float8" in cfg["act"] else "int8")),
                weight=cfg["wk"].split("_")[0].replace("qfloat8", "float8").replace("e4m3fn", "").replace("e5m2", "").strip("_"),
                dtype=str(wd))
    X, W = dq(x).to(F64), dq(w).to(F64)
    Wt = W.transpose(-1, -2) if transpose_w else W
    ref = X @ Wt
    absdot = X.abs() @ Wt.abs()
    b = None
    if bias is not None:
        b = oracles.plain(bias).to(F64)
        ref = ref + b
    o = oracles.plain(out)
    K = X.shape[-1]
    kclass = "K==1" if K == 1 else ("K%4" if K % 4 else ("K%16" if K % 16 else "K%16==0"))
    ctx.count("judged:" + route.split(":")[0])
    if tuple(o.shape) != tuple(ref.shape):
        ctx.violation(dict(sig0, kind="shape", kclass=kclass), dict(cfg=cfgj(cfg), got=list(o.shape), want=list(ref.shape)))
        return
    if o.dtype != wd:
        ctx.violation(dict(sig0, kind="dtype", got=str(o.dtype)), dict(cfg=cfgj(cfg)))
        return
    O = o.to(F64)
    fm = num.fmax(wd)
    rep = ref.abs() <= 0.98 * fm
    # the reference is only known up to the accumulation bound (it is the product of the *rounded* dequantized operands;
    # under heavy cancellation the exact scale-corrected integer product may lie a few percent away): a result is demanded
    # finite only when the reference plus that bound is representable
    tol_fin = num.dot_bound(ref, absdot, b.abs() if b is not None else 0.0, K, wd) + 2 * num.eps(wd) * absdot
    bad = ((ref.abs() + tol_fin) <= 0.98 * fm) & ~torch.isfinite(O)
    if bad.any():
        ctx.violation(dict(sig0, kind="nonfinite_for_representable_reference", kclass=kclass),
                      dict(cfg=cfgj(cfg), **oracles._first(bad, ref=ref)))
        return
    rep = rep & torch.isfinite(O) | ((ref.abs() + tol_fin) <= 0.98 * fm)
    if cfg["mode"] == "exact":
        # exactness domain: every partial sum (and the pre-bias product) is an integer number of units below 2^p
        p = MANT[wd]
        unit_ok = True
        tot = absdot + (b.abs() if b is not None else 0.0)
        # units: smallest power of two dividing all terms is >= min|nonzero term| / 2^? -> use ratio to the smallest unit
        sx_unit = X[X != 0].abs().min() if (X != 0).any() else torch.tensor(1.0, dtype=F64)
        w_unit = torch.where(Wt != 0, Wt.abs(), torch.full_like(Wt, float("inf"))).amin(dim=-2, keepdim=True)  # per output column
        w_unit = torch.where(torch.isfinite(w_unit), w_unit, torch.ones_like(w_unit))
        units = tot / (sx_unit * w_unit)
        wi = Wt / w_unit
        xi_ = X / sx_unit
        def is_pow2(t):
            m, _ = torch.frexp(t.reshape(-1))
            return bool((m == 0.5).all())

        integral = bool((wi == wi.round()).all()) and bool((xi_ == xi_.round()).all()) and is_pow2(w_unit) and \
            is_pow2(sx_unit)
        if b is not None:
            bi = b / (sx_unit * w_unit)
            integral = integral and bool((bi == bi.round()).all())
        exact = rep & (units < 2.0 ** p) & integral
        if exact.shape != ref.shape and exact.numel() == ref.numel():
            exact = exact.reshape(ref.shape)
        ctx.count("judged:exact", int(exact.sum() > 0))
        ctx.count("exact_elements", int(exact.sum()))
        bad = exact & ~(O == ref)
        if bad.any():
            ctx.violation(dict(sig0, kind="not_bit_exact", kclass=kclass, rows_class=rows_class(cfg)),
                          dict(cfg=cfgj(cfg), **oracles._first(bad, out=O, ref=ref)))
            return
        rest = rep & ~exact
    else:
        rest = rep
    tol = num.dot_bound(ref, absdot, b.abs() if b is not None else 0.0, K, wd) + 2 * num.eps(wd) * absdot
    diff = (O - ref).abs()
    bad = rest & ~(diff <= tol)
    okm = rest & (tol > 0)
    if okm.any():
        ctx.maxstat("diff/tol:" + route.split(":")[0] + ":" + str(wd).replace("torch.", ""), float((diff[okm] / tol[okm]).max()))
    if bad.any():
        ctx.violation(dict(sig0, kind="value_differs", kclass=kclass, rows_class=rows_class(cfg)),
                      dict(cfg=cfgj(cfg), **oracles._first(bad, out=O, ref=ref, diff=diff, tol=tol)))


def judge_raw(ctx, cfg, route, out, xdat, wdat, scales):
    """Direct call of the custom operator / a route function: reference from the raw operands it was given."""
    wd = cfg["wd"]
    sig0 = dict(route=route, act=("float" if cfg["act"] == "float" else ("float8" if "float8" in cfg["act"] else "int8")),
                weight=cfg["wk"].split("_")[0].replace("qfloat8", "float8").replace("e4m3fn", "").replace("e5m2", "").strip("_"),
                dtype=str(wd))
    to64 = lambda t: (t.to(torch.float32) if t.dtype in (torch.float8_e4m3fn, torch.float8_e5m2) else t).to(F64)  # noqa
    X, W, S = to64(xdat), to64(wdat), scales.to(F64).reshape(-1)
    raw = X @ W.t()
    ref = raw * S
    absdot = (X.abs() @ W.abs().t()) * S.abs()
    K = X.shape[-1]
    kclass = "K==1" if K == 1 else ("K%4" if K % 4 else ("K%16" if K % 16 else "K%16==0"))
    ctx.count("judged:" + route.split(":")[0])
    o = oracles.plain(out)
    if tuple(o.shape) != tuple(ref.shape):
        ctx.violation(dict(sig0, kind="shape", kclass=kclass, x1d=xdat.ndim == 1),
                      dict(cfg=cfgj(cfg), got=list(o.shape), want=list(ref.shape)))
        return
    if o.dtype != scales.dtype:
        ctx.violation(dict(sig0, kind="dtype", got=str(o.dtype)), dict(cfg=cfgj(cfg)))
        return
    O = o.to(F64)
    rep = ref.abs() <= 0.98 * num.fmax(wd)
    bad = rep & ~torch.isfinite(O)
    if bad.any():
        ctx.violation(dict(sig0, kind="nonfinite_for_representable_reference", kclass=kclass),
                      dict(cfg=cfgj(cfg), **oracles._first(bad, ref=ref)))
        return
    tol = 8 * num.eps(wd) * ref.abs() + 2 * K * num.eps(torch.float32) * absdot + 4 * num.smallest_subnormal(wd)
    if xdat.dtype == wd and wd != torch.float32 and cfg["act"] == "float":
        tol = tol + 2 * num.eps(wd) * absdot  # half-precision matmul of float activations
    diff = (O - ref).abs()
    bad = rep & ~(diff <= tol)
    okm = rep & (tol > 0)
    if okm.any():
        ctx.maxstat("diff/tol:" + route.split(":")[0] + ":" + str(wd).replace("torch.", ""), float((diff[okm] / tol[okm]).max()))
    if bad.any():
        ctx.violation(dict(sig0, kind="value_differs", kclass=kclass, rows_class=rows_class(cfg)),
                      dict(cfg=cfgj(cfg), **oracles._first(bad, out=O, ref=ref, diff=diff, tol=tol)))


def rows_class(cfg):
    r = cfg["rows"] * (2 if cfg["brank"] >= 3 else 1)
    return "rows>16&%8==0" if (r > 16 and r % 8 == 0) else ("rows>16" if r > 16 else "rows<=16")


def cfgj(cfg):
    return {k: (str(v) if isinstance(v, torch.dtype) else v) for k, v in cfg.items()}


def known_crash_class(cfg):
    """bfloat16 float activations x int8 weights with in_features % 4 == 0 and % 16 != 0 reach a CPU kernel that
    segfaults in this torch build (finding F33): only probed in sacrificial cases."""
    return cfg["wd"] == torch.bfloat16 and cfg["act"] == "float" and cfg["wk"] in ("qint8", "qint8_pt") and \
        cfg["K"] % 4 == 0 and cfg["K"] % 16 != 0


def run_case(ctx, oq, cfg, qmm, rng):
    x, w, bias = build(ctx, oq, rng, cfg)
    sigx = dict(act=cfg["act"], weight=cfg["wk"], dtype=str(cfg["wd"]))

    def guarded(route, fn, *a, **kw):
        try:
            return fn(*a, **kw), None
        except Exception as e:
            import re

            ctx.violation(dict(kind="raises", route=route, exc=type(e).__name__,
                               msg=re.sub(r"[0-9]+", "N", str(e).splitlines()[0][:60]) if str(e) else "",
                               act=("float" if cfg["act"] == "float" else ("float8" if "float8" in cfg["act"] else "int8")),
                               weight=cfg["wk"], dtype=str(cfg["wd"]),
                               kclass="K==1" if cfg["K"] == 1 else "K>1", N1=cfg["N"] == 1, x1d=cfg["brank"] == 1),
                          dict(cfg=cfgj(cfg), msg=str(e)[:300]))
            return None, e

    # 1. the quantized linear function (which must not touch its operands)
    xfp, wfp = fp.tensor_fp(x), fp.tensor_fp(w)
    spell = rng.random()  # the same call, spelled the three ways torch documents it
    if spell < 0.7:
        out, exc = guarded("linear", F.linear, x, w, bias)
    elif spell < 0.85:
        out, exc = guarded("linear", lambda: F.linear(x, weight=w, bias=bias))
    else:
        out, exc = guarded("linear", lambda: F.linear(input=x, weight=w, bias=bias))
    if fp.tensor_fp(x) != xfp or fp.tensor_fp(w) != wfp:
        ctx.violation(dict(kind="operand_modified", route="linear", act=sigx["act"] != "float", weight=cfg["wk"],
                           dtype=str(cfg["wd"]), N1=cfg["N"] == 1), dict(cfg=cfgj(cfg)))
        return
    if exc is None:
        want_shape = tuple(x.shape[:-1]) + (cfg["N"],)
        if tuple(out.shape) != want_shape:
            ctx.violation(dict(kind="shape", route="linear", x1d=cfg["brank"] == 1, act=sigx["act"] != "float",
                               weightfam=cfg["wk"].split("_")[0]), dict(cfg=cfgj(cfg), got=list(out.shape), want=list(want_shape)))
        else:
            judge(ctx, cfg, "linear", out, x, w, bias)
    lowbit = cfg["wk"].startswith(("qint4", "qint2"))
    # 2. matmul / mm / bmm with quantized operands (weights transposed as a user would write x @ w.t())
    if not lowbit and cfg["brank"] >= 2 and cfg["K"] > 1:
        wt, exc = guarded("t", lambda: w.t())
        if exc is None:
            if cfg["brank"] == 2:
                out, exc = guarded("mm", torch.mm, x, wt)
                if exc is None:
                    judge(ctx, cfg, "mm", out, x, wt, None, transpose_w=False)
            out, exc = guarded("matmul", torch.matmul, x, wt)
            if exc is None:
                judge(ctx, cfg, "mm:matmul", out, x, wt, None, transpose_w=False)
            if cfg["brank"] == 3 and hasattr(x, "qtype"):
                # bmm needs a batched second operand: quantize an expanded copy of the dequantized weight per-tensor
                wb_f = dq(wt).unsqueeze(0).expand(x.shape[0], -1, -1).contiguous()
                for kind in ("plain", "q"):
                    if kind == "q":
                        sc = (wb_f.abs().max().to(F64) / 127).to(cfg["wd"]) if cfg["mode"] != "exact" else \
                            torch.tensor(2.0 ** -7, dtype=cfg["wd"])
                        if cfg["mode"] == "exact":
                            continue
                        wb = oq.quantize_activation(wb_f, oq.qtypes["qint8"], sc)
                    else:
                        wb = wb_f
                    out, exc = guarded("bmm", torch.bmm, x, wb)
                    if exc is None:
                        judge(ctx, cfg, "bmm", out, x, wb, None, transpose_w=False)
    # 2b. per-axis operands on either side of mm, scales varying along the contracted dimension included
    if not lowbit and cfg["brank"] == 2 and cfg["K"] > 1 and cfg["rows"] > 1 and cfg["N"] > 1 and cfg["mode"] == "realistic" \
            and cfg["wk"] in ("qint8", "qfloat8_e4m3fn", "qfloat8_e5m2"):
        qt = oq.qtypes[cfg["wk"]]
        xf, wtf = dq(x), dq(w).t().contiguous()  # (rows, K), (K, N)
        col_mag = torch.from_numpy(np.exp(rng.uniform(np.log(1e-2), np.log(1e2), size=(1, cfg["K"])))).to(xf.dtype)
        xf2 = xf * col_mag  # ranges differ along the contraction so that a wrong scale is visible
        wtf2 = wtf * col_mag.t()
        for la in (0, -1):
            for ra in (0, -1):
                left, e1 = guarded("quantize", lambda: oq.quantize_weight(xf2, qt, la))
                right, e2 = guarded("quantize", lambda: oq.quantize_weight(wtf2, qt, ra))
                if e1 is not None or e2 is not None:
                    continue
                out, exc = guarded("mm", torch.mm, left, right)
                if exc is None:
                    ctx.count("mm_per_axis_pairs")
                    judge(ctx, dict(cfg, bias=False), "mm:per_axis_l%d_r%d" % (la, ra), out, left, right, None,
                          transpose_w=False)
    # 4. the same weight object serves several calls and is overwritten in place in between (swapping frozen weights): the
    # next product must use what the weight holds now
    if not lowbit and cfg["mode"] == "realistic" and cfg.get("wlay", "contiguous") == "contiguous" and exc is None \
            and type(fp.unwrap_param(w)).__name__ == "QBytesTensor" and rng.random() < 0.4:
        _x2, w2, _b2 = build(ctx, oq, rng, cfg)
        if type(fp.unwrap_param(w2)).__name__ == "QBytesTensor" and tuple(w2.shape) == tuple(w.shape):
            with torch.no_grad():
                _r, e1 = guarded("copy_", lambda: w.copy_(w2))
            if e1 is None:
                out, e2 = guarded("linear", F.linear, x, w, bias)
                if e2 is None:
                    ctx.count("products_after_inplace_weight_update")
                    judge(ctx, cfg, "linear:after_inplace_weight_update", out, x, w, bias)
    # 3. the custom operator and each route function on the raw operands
    if not lowbit and type(fp.unwrap_param(w)).__name__ == "QBytesTensor" and not cfg["wk"].endswith("_lastaxis"):
        wi = fp.inner(fp.unwrap_param(w))[0]
        wdat, wsc = oracles.plain(wi["_data"]), oracles.plain(wi["_scale"])
        if hasattr(x, "qtype"):
            xi = fp.inner(x)[0]
            xdat, scales = oracles.plain(xi["_data"]), oracles.plain(xi["_scale"]) * wsc
        else:
            xdat, scales = x, wsc
        routes = [("op:qbytes_mm", torch.ops.quanto.qbytes_mm)]
        if qmm is not None:
            if hasattr(qmm, "qbytes_mm"):
                routes.append(("fn:qbytes_mm", qmm.qbytes_mm))
            if hasattr(qmm, "qbytes_int_mm") and xdat.dtype == torch.int8 and wdat.dtype == torch.int8:
                routes.append(("fn:qbytes_int_mm", qmm.qbytes_int_mm))
            if hasattr(qmm, "qbytes_int8pack_mm") and xdat.dtype == torch.bfloat16 and wdat.dtype == torch.int8 \
                    and cfg["K"] % 16 == 0 and scales.numel() == cfg["N"]:
                routes.append(("fn:qbytes_int8pack_mm", qmm.qbytes_int8pack_mm))
        for rname, fn in routes:
            if xdat.ndim == 1 and rname != "op:qbytes_mm":
                continue
            out, exc = guarded(rname, fn, xdat, wdat, scales)
            if exc is None:
                ctx.count("route:" + rname)
                judge_raw(ctx, cfg, rname, out, xdat, wdat, scales)


def run(ctx):
    import optimum.quanto as oq

    try:
        from optimum.quanto.library import qbytes_mm as qmm
    except Exception:
        qmm = None
    warnings.simplefilter("ignore")
    rng = ctx.rng
    n = (8000 if ctx.tier == "quick" else 250_000) // ctx.nshards
    with torch.no_grad():
        for i in range(n):
            wd = DT[int(rng.integers(3))]
            wk = WEIGHTS[int(rng.integers(len(WEIGHTS)))]
            K = int(FEATS[rng.integers(len(FEATS))])
            N = int(FEATS[rng.integers(len(FEATS) - 3)])
            cfg = dict(wd=wd, act=ACTS[int(rng.integers(4))], wk=wk, rows=int(ROWS[rng.integers(len(ROWS))]), K=K, N=N,
                       brank=int(rng.choice([1, 2, 2, 2, 3, 3, 4])), bias=bool(rng.random() < 0.5),
                       mode="exact" if rng.random() < 0.45 else "realistic",
                       xlay=["contiguous", "contiguous", "contiguous", "transposed", "transposed", "sliced", "expanded_col",
                             "expanded_row", "col_range"][int(rng.integers(9))],
                       wlay=["contiguous", "contiguous", "contiguous", "transposed_storage", "expanded_rows"][int(rng.integers(5))])
            if wk.endswith("_lastaxis"):
                cfg["mode"] = "realistic"
                if K < 2:
                    cfg["K"] = K = 2
                if rng.random() < 0.5:
                    cfg["N"] = N = K  # square: the number of scales equals the number of output features
                elif N < 2:
                    cfg["N"] = N = 2
            if wk.endswith("_g"):
                divs = [d for d in (2, 4, 8, 16, 32, 64, 128) if K % d == 0 and d <= K]
                if not divs:
                    cfg["wk"] = wk[:-2]
                else:
                    cfg["gs"] = int(divs[rng.integers(len(divs))])
            if cfg["wk"] in ("qint8", "qfloat8_e4m3fn", "qfloat8_e5m2") and (N == 1 or K == 1):
                # a size-1 axis degrades to per-tensor quantization (documented normalisation)
                pass
            if cfg["wk"].startswith(("qint4", "qint2")) and K < 2:
                cfg["K"] = K = 4
            if known_crash_class(cfg):
                ctx.count("steered_around_known_crash_class")
                cfg["K"] = K = K + 1 if K % 16 else K
                if known_crash_class(cfg):
                    continue
            if not ctx.case(cfgj(cfg)):
                continue
            try:
                run_case(ctx, oq, cfg, qmm, ctx.crng)
            except Exception as e:
                import traceback

                ctx.count("harness_case_errors")
                ctx.see("harness_errors", f"{type(e).__name__}:{str(e)[:100]}:" + traceback.format_exc().splitlines()[-3].strip()[:90])
                continue
            r = cfg["rows"]
            if r in (15, 16, 17, 24, 31, 32, 33) or K % 4 or K % 8 or K % 32 or cfg["brank"] >= 3:
                ctx.nontrivial(tuple(sorted(cfgj(cfg).items())))
            ctx.see("act_x_weight", cfg["act"] + "x" + cfg["wk"])
            if i % 199 == 0:
                ctx.sample(cfgj(cfg))
        # sacrificial probes of the known native crash class (kept to notice when it stops being true)
        if ctx.shard == 0:
            for K in ((4, 12, 24) if ctx.tier == "quick" else (4, 8, 12, 20, 24, 36, 40)):
                cfg = dict(wd=torch.bfloat16, act="float", wk="qint8", rows=17, K=K, N=33, brank=2, bias=False,
                           mode="realistic")
                d = cfgj(cfg)
                d["crash_class"] = "bf16_float_x_int8_K%4==0_K%16!=0"
                if not ctx.case(d):
                    continue
                ctx.count("crash_probes")
                run_case(ctx, oq, cfg, qmm, ctx.crng)
        # same kernel, K % 16 == 0, but the int8 payload comes from a safetensors file (unaligned storage)
        if ctx.shard == 0:
            import os
            import tempfile

            for rep in range(2 if ctx.tier == "quick" else 6):
                d = dict(wd="torch.bfloat16", act="float", wk="qint8", rows=4, K=16, N=32, brank=2, bias=True, mode="realistic",
                         crash_class="bf16_float_x_int8_payload_from_safetensors", rep=rep)
                if not ctx.case(d):
                    continue
                ctx.count("crash_probes")
                tmp = tempfile.mkdtemp(prefix="qv_c07_")
                try:
                    torch.manual_seed(rep)
                    m = torch.nn.Sequential(torch.nn.Linear(16, 32), torch.nn.ReLU(), torch.nn.Linear(32, 8)).to(torch.bfloat16)
                    oq.quantize(m, weights=oq.qint8)
                    oq.freeze(m)
                    path = os.path.join(tmp, "m.safetensors")
                    oq.safe_save(m.state_dict(), path)
                    m2 = torch.nn.Sequential(torch.nn.Linear(16, 32), torch.nn.ReLU(), torch.nn.Linear(32, 8)).to(torch.bfloat16)
                    oq.requantize(m2, oq.safe_load(path))
                    x = torch.randn(4, 16).to(torch.bfloat16)
                    for _ in range(20):
                        a, b = m(x), m2(x)
                        if not torch.equal(a, b):
                            ctx.violation(dict(kind="value_differs", route="linear", act="float", weight="qint8",
                                               dtype="torch.bfloat16", kclass="K%16==0", mechanism="payload_from_safetensors"),
                                          dict(cfg=d))
                            break
                finally:
                    import shutil

                    shutil.rmtree(tmp, ignore_errors=True)
    if ctx.counters.get("harness_case_errors", 0) > 0.02 * max(1, ctx.counters.get("cases", 0)):
        ctx.inconclusive(f"harness errors: {sorted(ctx.sets.get('harness_errors', []))[:5]}")
