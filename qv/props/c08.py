"""C08 — quantize() swaps exactly the eligible modules and each computes its float twin."""

import copy
import warnings

import numpy as np
import torch
import torch.nn as nn

from qv import attach, fp, gen, num, oracles

F64 = torch.float64

META = dict(
    level="exploration",
    shards={"quick": 12, "thorough": 16},
    watchdog_s={"quick": 1500, "thorough": 5400},
    evaluations_counter="cases",
    min={"trees": 300, "module_forwards_judged": 1000, "structural_module_checks": 2000, "twin:QLinear": 200,
         "twin:QConv2d": 200, "twin:QLayerNorm": 50},
    anchors=["quantize.py:quantize",
             "nn/qmodule.py:QModuleMixin.from_module",
             "nn/qmodule.py:QModuleMixin.forward",
             "nn/qlinear.py:QLinear.qforward",
             "nn/qconv2d.py:QConv2d.qforward",
             "nn/qlayernorm.py:QLayerNorm.qforward",
             "nn/qmodule.py:quantize_module",
             "quantize.py:set_module_by_name"],
    rule="case = random module tree (depth <=4; Sequential/ModuleList/ModuleDict/custom containers; leaves Linear, Conv2d "
         "over stride/padding/dilation/groups/padding_mode/bias, LayerNorm over normalized_shape/affine/bias, and "
         "non-eligible layers) x random filter x weights qtype x activations {None,qint8,qfloat8} x dtype; structural "
         "diff of the tree before/after quantize(), then every quantized module is run alone on float and on quantized "
         "inputs and compared with its float64 twin (dequantized weight, the actually quantized input observed at the "
         "quantize_activation boundary). Non-trivial when the tree has nesting >=2, >=1 non-eligible leaf and a "
         "non-default Conv2d/LayerNorm hyper-parameter or a filter; distinct by tree signature",
    assumptions=["the twin takes the quantized input observed at the module's own quantize_activation call (C01 judges "
                 "that call); the call must use the module's input_scale and activation qtype",
                 "tolerance: dot_bound(c=8) + 2*eps(dtype)*sum|x.w|; with quantized outputs one (local) step of the output "
                 "scale is added and the reference is clipped to the representable range",
                 "activation scales come from one calibration batch with streamline=False"],
)

DT = [torch.float32, torch.float16, torch.bfloat16]
WQ = ["qint8", "qfloat8", "qfloat8_e4m3fn", "qfloat8_e5m2", "qint4", "qint2"]
AQ = [None, None, "qint8", "qfloat8", "qfloat8_e5m2"]


class Custom(nn.Module):
    """A user container with its own attribute names."""

    def __init__(self, a, b):
        super().__init__()
        self.first = a
        self.block = b

    def forward(self, x):
        return self.block(self.first(x))


class ScaledInitLinear(nn.Linear):
    """A user subclass that only customises initialisation."""

    def reset_parameters(self):
        super().reset_parameters()
        with torch.no_grad():
            self.weight.mul_(0.5)


class SamePadConv2d(nn.Conv2d):
    def __init__(self, cin, cout, k, **kw):
        super().__init__(cin, cout, k, padding=k // 2, **kw)


class MyLayerNorm(nn.LayerNorm):
    pass


def rand_conv(rng):
    groups = int(rng.choice([1, 1, 2, 3]))
    cin, cout = groups * int(rng.integers(1, 4)), groups * int(rng.integers(1, 4))
    k = (int(rng.integers(1, 4)), int(rng.integers(1, 4))) if rng.random() < 0.5 else int(rng.integers(1, 4))
    stride = int(rng.integers(1, 4)) if rng.random() < 0.5 else (int(rng.integers(1, 3)), int(rng.integers(1, 3)))
    dilation = int(rng.integers(1, 3))
    pm = ["zeros", "zeros", "reflect", "replicate", "circular"][rng.integers(5)]
    pc = rng.integers(5)
    if pc == 0:
        padding = 0
    elif pc == 1:
        padding = 1
    elif pc == 2:
        padding = (1, 0)
    elif pc == 3:
        padding, stride = "same", 1
    else:
        padding = "valid"
    return dict(in_channels=cin, out_channels=cout, kernel_size=k, stride=stride, padding=padding, dilation=dilation,
                groups=groups, bias=bool(rng.random() < 0.6), padding_mode=pm)


def rand_leaf(rng):
    c = rng.integers(12)
    if c >= 10:
        # subclasses of the eligible classes are eligible too (isinstance), e.g. MultiheadAttention.out_proj
        k = rng.integers(4)
        if k == 0:
            return ScaledInitLinear(int(rng.choice([8, 16, 33])), int(rng.choice([2, 8])))
        if k == 1:
            return nn.modules.linear.NonDynamicallyQuantizableLinear(int(rng.choice([8, 16])), int(rng.choice([4, 8])))
        if k == 2:
            return SamePadConv2d(int(rng.integers(1, 4)), int(rng.integers(1, 4)), int(rng.choice([1, 3])))
        return MyLayerNorm(int(rng.choice([4, 8])))
    if c < 3:
        return nn.Linear(int(rng.choice([1, 3, 8, 16, 33, 64, 160, 256])), int(rng.choice([1, 2, 5, 8, 16])),
                         bias=bool(rng.random() < 0.7))
    if c < 5:
        return nn.Conv2d(**rand_conv(rng))
    if c < 7:
        ns = int(rng.choice([4, 8, 16])) if rng.random() < 0.6 else (int(rng.choice([2, 3])), int(rng.choice([4, 8])))
        aff = bool(rng.random() < 0.75)
        return nn.LayerNorm(ns, eps=float(rng.choice([1e-5, 1e-3])), elementwise_affine=aff,
                            bias=bool(rng.random() < 0.7) if aff else True)
    return [nn.ReLU(), nn.GELU(), nn.Conv1d(2, 3, 2), nn.BatchNorm2d(3), nn.Embedding(5, 4), nn.Identity(),
            nn.Dropout(0.1)][rng.integers(7)]


def rand_tree(rng, depth):
    if depth == 0 or rng.random() < 0.25:
        return rand_leaf(rng)
    n = int(rng.integers(1, 4))
    kids = [rand_tree(rng, depth - 1) for _ in range(n)]
    if n >= 2 and rng.random() < 0.08:
        kids[-1] = kids[0]  # one module instance registered under two names (weight sharing)
    c = rng.integers(4)
    if c == 0:
        return nn.Sequential(*kids)
    if c == 1:
        return nn.ModuleList(kids)
    if c == 2:
        return nn.ModuleDict({f"k{i}": k for i, k in enumerate(kids)})
    return Custom(kids[0], nn.Sequential(*kids[1:]) if len(kids) > 1 else nn.Identity())


HP = {"Linear": ["in_features", "out_features"],
      "Conv2d": ["in_channels", "out_channels", "kernel_size", "stride", "padding", "dilation", "groups", "padding_mode",
                 "transposed", "output_padding"],
      "LayerNorm": ["normalized_shape", "eps", "elementwise_affine"]}


def base_kind(m):
    for k, cls in (("Linear", nn.Linear), ("Conv2d", nn.Conv2d), ("LayerNorm", nn.LayerNorm)):
        if isinstance(m, cls):
            return k
    return None


def snapshot(model):
    snap = {}
    for name, m in model.named_modules(remove_duplicate=False):
        k = base_kind(m)
        snap[name] = dict(
            obj=m, cls=type(m).__name__, kind=k,
            params={n: (fp.plain_bytes(p), str(p.dtype), tuple(p.shape), str(p.device)) for n, p in
                    m.named_parameters(recurse=False)},
            buffers={n: fp.plain_bytes(b) for n, b in m.named_buffers(recurse=False)},
            hp={a: getattr(m, a, None) for a in HP.get(k, [])} if k else {},
            extra=m.extra_repr(),
            has_bias=(getattr(m, "bias", None) is not None) if k else None,
        )
    return snap


def structural(ctx, model, snap, selected, acts, sig0, desc):
    after_names = [n for n, _ in model.named_modules(remove_duplicate=False)]
    if after_names != list(snap.keys()):
        ctx.violation(dict(sig0, kind="module_names_changed"),
                      dict(desc=desc, before=list(snap)[:20], after=after_names[:20]))
        return {}
    qmods = {}
    for name, s in snap.items():
        after = model.get_submodule(name) if name else model
        ctx.count("structural_module_checks")
        eligible = s["kind"] in ("Linear", "Conv2d") or (s["kind"] == "LayerNorm" and acts is not None)
        sel = selected is None or any(s["obj"] is m for m in selected)
        if eligible and sel:
            want = "Q" + s["kind"]
            if type(after).__name__ != want or after is s["obj"]:
                shared = sum(1 for t in snap.values() if t["obj"] is s["obj"]) > 1
                ctx.violation(dict(sig0, kind="eligible_module_not_replaced", module=s["kind"], shared_instance=shared),
                              dict(desc=desc, name=name, got=type(after).__name__))
                continue
            qmods[name] = after
            for pn, (pb, pdt, psh, pdev) in s["params"].items():
                p = getattr(after, pn, None)
                if p is None or fp.plain_bytes(p) != pb or str(p.dtype) != pdt or tuple(p.shape) != psh or \
                        str(p.device) != pdev:
                    ctx.violation(dict(sig0, kind="parameter_not_preserved", module=s["kind"], param=pn),
                                  dict(desc=desc, name=name))
            if (getattr(after, "bias", None) is not None) != s["has_bias"]:
                ctx.violation(dict(sig0, kind="bias_presence_changed", module=s["kind"]), dict(desc=desc, name=name))
            for a, v in s["hp"].items():
                if getattr(after, a, None) != v:
                    ctx.violation(dict(sig0, kind="hyperparameter_changed", module=s["kind"], attr=a),
                                  dict(desc=desc, name=name, before=v, after=getattr(after, a, None)))
            if after.extra_repr() != s["extra"]:
                ctx.violation(dict(sig0, kind="extra_repr_changed", module=s["kind"]),
                              dict(desc=desc, before=s["extra"], after=after.extra_repr()))
        else:
            if after is not s["obj"]:
                ctx.violation(dict(sig0, kind="non_eligible_module_replaced", module=s["cls"],
                                   filtered=eligible and not sel), dict(desc=desc, name=name, got=type(after).__name__))
                continue
            now_p = {n: (fp.plain_bytes(p), str(p.dtype), tuple(p.shape), str(p.device)) for n, p in
                     after.named_parameters(recurse=False)}
            now_b = {n: fp.plain_bytes(b) for n, b in after.named_buffers(recurse=False)}
            if now_p != s["params"] or now_b != s["buffers"]:
                ctx.violation(dict(sig0, kind="untouched_module_modified", module=s["cls"]), dict(desc=desc, name=name))
    return qmods


def module_input(rng, kind, q, wd):
    if kind == "Linear":
        lead = [(), (3,), (2, 5), (2, 1, 4)][rng.integers(4)]
        shape = tuple(lead) + (q.in_features,)
    elif kind == "Conv2d":
        kh, kw = q.kernel_size
        dh, dw = q.dilation
        mh, mw = (kh - 1) * dh + 1, (kw - 1) * dw + 1
        shape = (int(rng.integers(1, 3)), q.in_channels, mh + int(rng.integers(2, 6)), mw + int(rng.integers(2, 6)))
    else:
        shape = (int(rng.integers(1, 4)),) + ((int(rng.integers(1, 3)),) if rng.random() < 0.5 else ()) + tuple(
            q.normalized_shape)
    mag = float(np.exp(rng.uniform(np.log(0.05), np.log(20))))
    if rng.random() < 0.2:
        # large activations: the float twin stays far inside the dtype's range (weights are small), but a product
        # accumulated in raw code units before the scales are applied would not
        mag = float(rng.choice([60.0, 150.0, 400.0]))
    x = (torch.from_numpy(rng.standard_normal(shape)) * mag).to(wd)
    # memory layouts real models feed to a layer: the result of a transpose (attention blocks), channels_last images,
    # a strided slice; the values are the same, only the strides change
    c = rng.random()
    if c < 0.2 and x.ndim >= 2:
        x = x.transpose(0, -2).contiguous().transpose(0, -2) if x.ndim >= 3 else x.t().contiguous().t()
    elif c < 0.3 and x.ndim == 4:
        x = x.contiguous(memory_format=torch.channels_last)
    elif c < 0.4 and x.ndim >= 1:
        big = torch.zeros(tuple(x.shape[:-1]) + (2 * x.shape[-1],), dtype=x.dtype)
        big[..., ::2] = x
        x = big[..., ::2]
    return x


def float_twin(kind, q, W64, x64):
    """(reference output, sum|x.w| term, K) of the original float class in float64."""
    b = q.bias.detach().to(F64) if getattr(q, "bias", None) is not None else None
    if kind == "Linear":
        ref = torch.nn.functional.linear(x64, W64, b)
        absdot = torch.nn.functional.linear(x64.abs(), W64.abs())
        return ref, absdot, (b.abs() if b is not None else 0.0), q.in_features
    if kind == "Conv2d":
        hp = {a: getattr(q, a) for a in ("in_channels", "out_channels", "kernel_size", "stride", "padding", "dilation",
                                        "groups", "padding_mode")}
        t = nn.Conv2d(bias=b is not None, **hp).to(F64)
        with torch.no_grad():
            t.weight.copy_(W64)
            if b is not None:
                t.bias.copy_(b)
            ref = t(x64)
            ta = nn.Conv2d(bias=False, **hp).to(F64)
            ta.weight.copy_(W64.abs())
            absdot = ta(x64.abs())
        return ref, absdot, (b.abs().reshape(1, -1, 1, 1) if b is not None else 0.0), W64[0].numel()
    raise KeyError(kind)


def ref_qdq(y64, scale, qtn):
    """Reference quantize-dequantize of float64 values on the grid scale*codes (nearest, saturating)."""
    st = torch.int8 if qtn == "qint8" else (torch.float8_e5m2 if "e5m2" in qtn else torch.float8_e4m3fn)
    table = num.code_table(st)
    s = scale.to(F64)
    q = y64 / s
    idx = torch.searchsorted(table, q.contiguous()).clamp(1, table.numel() - 1)
    lo, hi = table[idx - 1], table[idx]
    pick = torch.where((q - lo).abs() <= (hi - q).abs(), lo, hi)
    return pick * s, (hi - lo) * s.abs()


def twin_check(ctx, name, q, kind, x, wd, acts, sig0, desc, observed):
    """Run the quantized module on x and compare with its float64 twin."""
    observed.clear()
    try:
        out = q(x)
    except Exception as e:
        import re

        ctx.violation(dict(sig0, kind="forward_raises", module="Q" + kind, exc=type(e).__name__,
                           msg=re.sub(r"[0-9]+", "N", str(e).splitlines()[0][:60]) if str(e) else "",
                           padding_mode=getattr(q, "padding_mode", ""), affine=str(getattr(q, "elementwise_affine", "")),
                           qinput=hasattr(x, "qtype")),
                      dict(desc=desc, name=name, msg=str(e)[:300], module=repr(q)[:200]))
        return
    ctx.count("module_forwards_judged")
    ctx.count("twin:Q" + kind)
    aq = q.activation_qtype
    # effective input: what the module actually fed to its float function
    x_eff = x
    if aq is not None:
        if hasattr(x, "qtype"):
            if not (x.qtype == aq and x.axis is None):
                if not observed:
                    ctx.violation(dict(sig0, kind="input_not_requantized", module="Q" + kind), dict(desc=desc))
                    return
                x_eff = observed[0]["out"]
        elif kind != "LayerNorm":
            if not observed:
                ctx.violation(dict(sig0, kind="input_not_quantized", module="Q" + kind), dict(desc=desc))
                return
            x_eff = observed[0]["out"]
        if observed and x_eff is observed[0]["out"]:
            o = observed[0]
            if o["qtype"] != aq.name or fp.plain_bytes(o["scale"]) != fp.plain_bytes(q.input_scale):
                ctx.violation(dict(sig0, kind="input_quantized_with_wrong_scale_or_qtype", module="Q" + kind),
                              dict(desc=desc, used=o["qtype"], want=aq.name))
    x64 = (oracles.plain(x_eff.dequantize()) if hasattr(x_eff, "qtype") else oracles.plain(x_eff)).to(F64)
    if kind == "LayerNorm":
        w = q.weight.detach().to(F64) if q.weight is not None else None
        b = q.bias.detach().to(F64) if q.bias is not None else None
        ref = torch.nn.functional.layer_norm(x64, tuple(q.normalized_shape), w, b, q.eps)
        dims = tuple(range(-len(q.normalized_shape), 0))
        sd = (x64.var(dim=dims, unbiased=False, keepdim=True) + q.eps).sqrt()
        xn = (x64 - x64.mean(dim=dims, keepdim=True)) / sd
        wa = w.abs() if w is not None else 1.0
        tol = 16 * num.eps(wd) * ((xn * wa).abs() + (b.abs() if b is not None else 0.0) + x64.abs() / sd * wa) + \
            4 * num.smallest_subnormal(wd)
    else:
        qw = q.qweight
        if not hasattr(qw, "qtype") or qw.qtype.name != q.weight_qtype.name:
            ctx.violation(dict(sig0, kind="weight_not_quantized_as_requested", module="Q" + kind), dict(desc=desc))
            return
        W64 = oracles.plain(qw.dequantize()).to(F64)
        ref, absdot, babs, K = float_twin(kind, q, W64, x64)
        tol = num.dot_bound(ref, absdot, babs, K, wd) + 2 * num.eps(wd) * absdot
    if aq is None:
        if hasattr(out, "qtype"):
            ctx.violation(dict(sig0, kind="output_quantized_without_activations", module="Q" + kind), dict(desc=desc))
            return
        got = oracles.plain(out)
        want = ref
    else:
        if not hasattr(out, "qtype") or out.qtype != aq or out.axis is not None:
            ctx.violation(dict(sig0, kind="output_not_quantized_as_requested", module="Q" + kind), dict(desc=desc))
            return
        osc = oracles.plain(fp.inner(out)[0]["_scale"])
        if fp.plain_bytes(osc) != fp.plain_bytes(q.output_scale):
            ctx.violation(dict(sig0, kind="output_scale_not_used", module="Q" + kind), dict(desc=desc))
        got = oracles.plain(out.dequantize())
        want, step = ref_qdq(ref, oracles.plain(q.output_scale), aq.name)
        # a perturbation of ref by tol may move the nearest point by one local step
        tol = tol + step + 4 * num.ulp(want, wd)
    if tuple(got.shape) != tuple(want.shape) or got.dtype != wd:
        ctx.violation(dict(sig0, kind="output_shape_or_dtype", module="Q" + kind),
                      dict(desc=desc, got=list(got.shape), want=list(want.shape), dtype=str(got.dtype)))
        return
    G = got.to(F64)
    rep = want.abs() <= 0.98 * num.fmax(wd)
    diff = (G - want).abs()
    bad = rep & ~(diff <= tol)
    okm = rep & (tol > 0) & torch.isfinite(diff)
    if okm.any():
        ctx.maxstat(f"diff/tol:Q{kind}:{'act' if aq is not None else 'noact'}", float((diff[okm] / tol[okm]).max()))
    if bad.any():
        ctx.violation(dict(sig0, kind="output_differs_from_float_twin", module="Q" + kind,
                           weights=q.weight_qtype.name if q.weight_qtype is not None else "none", qinput=hasattr(x, "qtype"),
                           dtype=str(wd)),
                      dict(desc=desc, name=name, module=repr(q)[:200], **oracles._first(bad, got=G, want=want, diff=diff, tol=tol)))


def run(ctx):
    import optimum.quanto as oq

    warnings.simplefilter("ignore")
    rng = ctx.rng
    n_trees = (400 if ctx.tier == "quick" else 10_000) // ctx.nshards
    orig_qa = oq.quantize_activation
    observed = []

    def qa_spy(t, qtype, scale):
        out = orig_qa(t, qtype, scale)
        observed.append(dict(out=out, qtype=qtype.name, scale=scale.detach().clone()))
        return out

    with attach.Patches() as P, torch.no_grad():
        P.everywhere(orig_qa, qa_spy)
        for i in range(n_trees):
            wd = DT[int(rng.integers(3))]
            wq = WQ[int(rng.integers(len(WQ)))]
            acts = AQ[int(rng.integers(len(AQ)))]
            depth = int(rng.integers(1, 5))
            use_filter = rng.random() < 0.4
            desc = dict(tree=i, dtype=str(wd), weights=wq, activations=acts, depth=depth, filter=use_filter)
            if not ctx.case(desc):
                continue
            r = ctx.crng
            model = rand_tree(r, depth)
            if not isinstance(model, (nn.Sequential, nn.ModuleList, nn.ModuleDict, Custom)):
                model = nn.Sequential(model)
            model = model.to(wd)
            if r.random() < 0.4:
                model.eval()
            ctx.count("trees")
            snap = snapshot(model)
            leaves = [s["obj"] for s in snap.values() if s["kind"]]
            selected = None
            if use_filter and leaves:
                selected = [m for m in leaves if r.random() < 0.5]
            sig0 = dict(activations="none" if acts is None else ("float8" if "float8" in acts else "int8"))
            kw = dict(weights=oq.qtypes[wq])
            if acts is not None:
                kw["activations"] = oq.qtypes[acts]
            if selected is not None:
                kw["modules"] = selected
            # the documented alternative spellings of the same request: qtypes by name, the default optimizer passed explicitly
            api = r.random()
            if api < 0.25:
                kw["weights"] = wq
                if acts is not None:
                    kw["activations"] = acts
                ctx.count("quantize_with_qtype_names")
            elif api < 0.5:
                kw["optimizer"] = oq.MaxOptimizer() if wq in ("qint2", "qint4") else oq.AbsmaxOptimizer()
                ctx.count("quantize_with_explicit_optimizer")
            desc["tree_repr"] = " ".join(f"{n or '.'}:{s['cls']}" for n, s in snap.items())[:400]
            try:
                oq.quantize(model, **kw)
            except Exception as e:
                import re

                kinds = sorted({s["kind"] for s in snap.values() if s["kind"]})
                affine_off = any(s["kind"] == "LayerNorm" and not s["hp"].get("elementwise_affine", True) for s in
                                 snap.values())
                ctx.violation(dict(sig0, kind="quantize_raises", exc=type(e).__name__,
                                   msg=re.sub(r"[0-9]+", "N", str(e).splitlines()[0][:60]) if str(e) else "",
                                   layernorm_without_affine=affine_off),
                              dict(desc=desc, msg=str(e)[:300], kinds=kinds))
                continue
            qmods = structural(ctx, model, snap, selected, acts, sig0, desc)
            nesting = max((n.count(".") + 1 for n in snap if n), default=0)
            nonelig = any(s["kind"] is None and not isinstance(s["obj"], (nn.Sequential, nn.ModuleList, nn.ModuleDict,
                                                                         Custom)) for s in snap.values())
            nondefault = any(s["kind"] == "Conv2d" and (s["hp"]["padding_mode"] != "zeros" or s["hp"]["groups"] > 1 or
                                                        s["hp"]["dilation"] != (1, 1)) or
                             s["kind"] == "LayerNorm" and not s["hp"]["elementwise_affine"] for s in snap.values())
            if nesting >= 2 and nonelig and (nondefault or use_filter):
                ctx.nontrivial(desc["tree_repr"], wq, acts, str(wd), use_filter)
            # functional: every quantized module alone
            for name, q in qmods.items():
                kind = base_kind(q)
                if kind == "Linear" and gen.int8pack_crash_class(wd, wq, q.in_features, quantized_activations=acts is not None):
                    ctx.count("steered_around_known_crash_class")
                    continue
                for rep in range(2):
                    x = module_input(r, kind, q, wd)
                    if acts is not None:
                        try:
                            with oq.Calibration(streamline=False):
                                q(x)
                        except Exception as e:
                            import re

                            ctx.violation(dict(sig0, kind="calibration_forward_raises", module="Q" + kind,
                                               exc=type(e).__name__, padding_mode=getattr(q, "padding_mode", ""),
                                               msg=re.sub(r"[0-9]+", "N", str(e).splitlines()[0][:60]) if str(e) else ""),
                                          dict(desc=desc, name=name, msg=str(e)[:300], module=repr(q)[:200]))
                            break
                    twin_check(ctx, name, q, kind, x, wd, acts, sig0, desc, observed)
                    if acts is not None:
                        # the same module fed an already quantized activation (as the next layer of a model would be)
                        xin_q = ["qint8", "qfloat8_e4m3fn", "qfloat8_e5m2"][r.integers(3)]
                        qmax = 127.0 if xin_q == "qint8" else float(torch.finfo(oq.qtypes[xin_q].dtype).max)
                        sc = (x.abs().max().to(F64) / qmax).clamp(min=1e-6).to(wd)
                        xq = orig_qa(x, oq.qtypes[xin_q], sc)
                        twin_check(ctx, name, q, kind, xq, wd, acts, sig0, desc, observed)
            if i % 29 == 0:
                ctx.sample(dict(desc, quantized=sorted(qmods)[:8]))
