"""C09 — freeze() preserves outputs bit-for-bit, is idempotent and compacts storage (lifecycle history checker)."""

import copy
import warnings

import numpy as np
import torch

from qv import fp, lifecycle, num, oracles

META = dict(
    level="exploration",
    shards={"quick": 10, "thorough": 16},
    watchdog_s={"quick": 1500, "thorough": 5400},
    evaluations_counter="cases",
    min={"histories": 200, "freeze_steps": 200, "second_freeze_steps": 80, "deepcopy_steps": 40, "requires_grad_false_steps": 30, "move_steps": 60, "other_copy_steps": 100, "inference_mode_forwards": 60,
         "compaction_checks": 200, "transitions_checked": 1000},
    anchors=["quantize.py:freeze",
             "nn/qmodule.py:QModuleMixin.freeze",
             "nn/qmodule.py:QModuleMixin.qweight",
             "quantize.py:quantize",
             "tensor/qbits/qbits_ops.py:clone",
             "tensor/qbytes_ops.py:clone"],
    rule="case = one lifecycle history on a runnable model (7 architectures x 6 weight qtypes x activations "
         "{None,qint8,qfloat8} x dtype): random interleaving of forward / calibrate (with or without autograd) / freeze / "
         "freeze again / to(cpu) / cpu() / to(torch.device) / to(non_blocking) / deepcopy / copy.copy / pickle round trip / "
         "torch.save+torch.load of the module / _apply(clone) / reloading its own state_dict; after every step the recorder stores bit fingerprints of the "
         "outputs on a fixed probe set, of every bias/scale/other parameter and of the inner tensors of every quantized "
         "weight; the checker allows changes only across calibrate steps. Non-trivial when the history has a forward "
         "before and after freeze and >=1 of {second freeze, move, deepcopy}; distinct by (architecture, qtypes, dtype, "
         "step sequence)",
    assumptions=["one device only: 'between devices' is exercised as cpu->cpu moves and copies",
                 "payload density is computed from the unpacked code matrix reported by the packed payload"],
)

DT = [torch.float32, torch.float16, torch.bfloat16]
WQ = ["qint8", "qfloat8", "qfloat8_e4m3fn", "qfloat8_e5m2", "qint4", "qint2"]
AQ = [None, None, "qint8", "qfloat8"]
STEPS = ["forward", "calibrate", "calibrate_grad", "freeze", "freeze", "to_cpu", "cpu", "deepcopy", "forward_inference_mode",
         "to_device_obj",
         "to_non_blocking", "copy", "pickle", "torch_save_module", "apply_clone", "reload_own_state", "to_channels_last",
         "requires_grad_false", "requires_grad_false", "eval_mode"]


def compaction(ctx, model, wq, sig0, desc):
    """After freeze: requested qtype, dense payload, one scale (and zero-point) per output index or group."""
    for name, m in lifecycle.qmodules(model):
        if m.weight_qtype is None:
            continue
        ctx.count("compaction_checks")
        w = fp.unwrap_param(m.weight)
        if not hasattr(w, "qtype"):
            ctx.violation(dict(sig0, kind="weight_not_quantized_after_freeze"), dict(desc=desc, name=name))
            continue
        if w.qtype.name != wq:
            ctx.violation(dict(sig0, kind="frozen_qtype_not_requested"), dict(desc=desc, got=w.qtype.name, want=wq))
        numel = w.numel()
        out_f = w.shape[0]
        bits = w.qtype.bits
        inn, _ = fp.inner(w)
        data = inn["_data"]
        if fp.is_wrapper(data):
            payload = fp.inner(data)[0]["_data"]
            rows, cols = data.shape[0], (data.numel() // data.shape[0])
        else:
            payload = data
            rows, cols = data.shape[0], (data.numel() // data.shape[0])
        want_bytes = num.ceil_div(rows * bits, 8) * cols
        got_bytes = payload.numel() * payload.element_size()
        if data.numel() != numel or got_bytes != want_bytes:
            ctx.violation(dict(sig0, kind="payload_not_compact", bits=bits),
                          dict(desc=desc, name=name, got_bytes=got_bytes, want_bytes=want_bytes, codes=int(data.numel()),
                               numel=numel))
        gs = getattr(m, "weight_group_size", None)
        per = numel // out_f
        want_scales = out_f * (per // gs if gs else 1) if out_f > 1 or bits < 8 else 1
        ns = inn["_scale"].numel()
        if ns != want_scales:
            ctx.violation(dict(sig0, kind="scale_count_after_freeze", bits=bits),
                          dict(desc=desc, name=name, got=ns, want=want_scales, group_size=gs))
        if "_zeropoint" in inn and inn["_zeropoint"].numel() != want_scales:
            ctx.violation(dict(sig0, kind="zeropoint_count_after_freeze", bits=bits), dict(desc=desc, name=name))
        for f in oracles.check_meta(w, expect_qtype=wq):
            ctx.violation(dict(sig0, kind="meta:" + f["kind"]), dict(desc=desc, name=name, fail=f))


def run(ctx):
    import optimum.quanto as oq

    warnings.simplefilter("ignore")
    rng = ctx.rng
    n = (300 if ctx.tier == "quick" else 8000) // ctx.nshards
    for i in range(n):
        wd = DT[int(rng.integers(3))]
        wq = WQ[int(rng.integers(len(WQ)))]
        aq = AQ[int(rng.integers(len(AQ)))]
        kind = lifecycle.MODEL_KINDS[int(rng.integers(len(lifecycle.MODEL_KINDS)))]
        L = int(rng.integers(3, 9))
        core = STEPS[:9] + ["freeze"]  # freeze three times in ten among the core steps
        steps = [core[int(rng.integers(len(core)))] if rng.random() < 0.65 else STEPS[9 + int(rng.integers(len(STEPS) - 9))]
                 for _ in range(L)]
        if "freeze" not in steps:
            steps[int(rng.integers(L))] = "freeze"
        if aq is None:
            steps = [s if not s.startswith("calibrate") or rng.random() < 0.3 else "forward" for s in steps]
        if lifecycle.crash_hazard(kind, wd, wq, aq):
            ctx.count("steered_around_known_crash_class")
            wq = "qfloat8"
        if "float8" in wq:
            # platform: pickle.loads(pickle.dumps(t)) of a *plain* float8 tensor raises in this torch build (legacy
            # storage loader); torch.save/torch.load of the module is the float8-capable route
            steps = [s if s != "pickle" else "torch_save_module" for s in steps]
        desc = dict(history=i, model=kind, dtype=str(wd), weights=wq, activations=aq, steps=steps)
        if not ctx.case(desc):
            continue
        r = ctx.crng
        ctx.count("histories")
        sig0 = dict(weights=wq if wq in ("qint4", "qint2") else ("float8" if "float8" in wq else "int8"),
                    activations="none" if aq is None else ("float8" if "float8" in aq else "int8"))
        model, shape = lifecycle.build(kind, wd)
        if lifecycle.hostile_rows(model, r):
            ctx.count("models_with_degenerate_rows")
        probes = [lifecycle.batch(r, shape, wd) for _ in range(2)]
        try:
            kw = dict(weights=oq.qtypes[wq])
            if aq is not None:
                kw["activations"] = oq.qtypes[aq]
            oq.quantize(model, **kw)
            if aq is not None:  # start from calibrated scales
                with torch.no_grad(), oq.Calibration(streamline=False):
                    model(lifecycle.batch(r, shape, wd))
            prev = lifecycle.record(model, probes, ignore_meta=("stride",))
        except Exception as e:
            ctx.violation(dict(sig0, kind="setup_raises", exc=type(e).__name__), dict(desc=desc, msg=str(e)[:300]))
            continue
        frozen = False
        hist = []
        for si, step in enumerate(steps):
            try:
                if step == "forward":
                    with torch.no_grad():
                        model(lifecycle.batch(r, shape, wd))
                elif step == "forward_inference_mode":
                    # torch.inference_mode() is the recommended inference context; parameters were created outside it
                    def meta(o):
                        return (type(fp.unwrap_param(o)).__name__, tuple(o.shape), str(o.dtype)) if isinstance(o, torch.Tensor) \
                            else repr(type(o))

                    with torch.no_grad():
                        want_inf = [meta(model(x_)) for x_ in probes]
                    with torch.inference_mode():
                        got_inf = [meta(model(x_)) for x_ in probes]
                    ctx.count("inference_mode_forwards")
                    # the model must run there (an exception is reported as step_raises) and return the same kind of
                    # result; torch itself decomposes matmul differently in the two contexts, so bits are not compared
                    if got_inf != want_inf:
                        ctx.violation(dict(sig0, kind="result_kind_differs_under_inference_mode", frozen=frozen),
                                      dict(desc=desc, step_index=si, got=str(got_inf)[:200], want=str(want_inf)[:200]))
                elif step == "calibrate":
                    with torch.no_grad(), oq.Calibration(streamline=False):
                        model(lifecycle.batch(r, shape, wd))
                elif step == "calibrate_grad":
                    with oq.Calibration(streamline=False):  # as in the README: autograd left enabled
                        model(lifecycle.batch(r, shape, wd))
                elif step == "freeze":
                    oq.freeze(model)
                    ctx.count("freeze_steps")
                    if frozen:
                        ctx.count("second_freeze_steps")
                elif step == "to_cpu":
                    model = model.to("cpu")
                    ctx.count("move_steps")
                elif step == "cpu":
                    model = model.cpu()
                    ctx.count("move_steps")
                elif step == "deepcopy":
                    model = copy.deepcopy(model)
                    ctx.count("deepcopy_steps")
                elif step == "requires_grad_false":
                    # inference pipelines switch gradients off before (or after) freezing: a flag, not a value
                    model.requires_grad_(False)
                    ctx.count("requires_grad_false_steps")
                elif step == "eval_mode":
                    model.eval()
                elif step == "to_channels_last":
                    # a memory-format move: values (and therefore outputs on the same inputs) must not change
                    model = model.to(memory_format=torch.channels_last)
                    ctx.count("move_steps")
                    ctx.count("channels_last_moves")
                elif step == "to_device_obj":
                    model = model.to(torch.device("cpu"))
                    ctx.count("move_steps")
                elif step == "to_non_blocking":
                    model = model.to("cpu", non_blocking=True)
                    ctx.count("move_steps")
                elif step == "copy":
                    model = copy.copy(model)
                    ctx.count("other_copy_steps")
                elif step == "pickle":
                    import pickle

                    model = pickle.loads(pickle.dumps(model))
                    ctx.count("other_copy_steps")
                elif step == "torch_save_module":
                    import io

                    buf = io.BytesIO()
                    torch.save(model, buf)
                    buf.seek(0)
                    model = torch.load(buf, weights_only=False)
                    ctx.count("other_copy_steps")
                elif step == "apply_clone":
                    model = model._apply(lambda t: t.clone())
                    ctx.count("other_copy_steps")
                elif step == "reload_own_state":
                    model.load_state_dict(copy.deepcopy(model.state_dict()))
                    ctx.count("other_copy_steps")
                cur = lifecycle.record(model, probes, ignore_meta=("stride",))
            except Exception as e:
                import re

                ctx.violation(dict(sig0, kind="step_raises", step=step, exc=type(e).__name__, frozen=frozen,
                                   msg=re.sub(r"[0-9]+", "N", str(e).splitlines()[0][:70]) if str(e) else "",
                                   after_calibrate_grad="calibrate_grad" in steps[:si]),
                              dict(desc=desc, step_index=si, msg=str(e)[:300]))
                break
            ctx.count("transitions_checked")
            calib = step.startswith("calibrate")
            wprev, rprev = lifecycle.split_state(prev["state"], model)
            wcur, rcur = lifecycle.split_state(cur["state"], model)
            if step == "to_channels_last":
                # a memory-format conversion is neither a device move nor a copy: torch picks other kernels, so output bits
                # may change (they do for float models too); the values held by the model may not
                if wcur != wprev or rcur != rprev:
                    ctx.violation(dict(sig0, kind="memory_format_conversion_changed_values", frozen=frozen),
                                  dict(desc=desc, step_index=si, changed=fp.diff(dict(wprev, **rprev), dict(wcur, **rcur))[:6]))
                prev = cur
                hist.append(step)
                continue
            if not calib:
                if cur["outs"] != prev["outs"]:
                    ctx.violation(dict(sig0, kind="outputs_changed", step=step, already_frozen=frozen),
                                  dict(desc=desc, step_index=si))
                if rcur != rprev:
                    ctx.violation(dict(sig0, kind="bias_scale_or_other_module_changed", step=step),
                                  dict(desc=desc, step_index=si, changed=fp.diff(rprev, rcur)[:6]))
                if (step != "freeze" or frozen) and wcur != wprev:
                    ctx.violation(dict(sig0, kind="weights_changed", step=step, already_frozen=frozen),
                                  dict(desc=desc, step_index=si, changed=fp.diff(wprev, wcur)[:6]))
            else:
                # calibration may change activation scales (and therefore outputs) but never weights or biases
                nonscale_prev = {k: v for k, v in rprev.items() if not k.endswith("_scale")}
                nonscale_cur = {k: v for k, v in rcur.items() if not k.endswith("_scale")}
                if nonscale_cur != nonscale_prev or wcur != wprev:
                    ctx.violation(dict(sig0, kind="calibration_changed_weights_or_biases", step=step),
                                  dict(desc=desc, step_index=si))
            if step == "freeze":
                if not frozen:
                    compaction(ctx, model, wq, sig0, desc)
                frozen = True
            prev = cur
            hist.append(step)
        fi = steps.index("freeze")
        if "forward" in steps[:fi] + ["forward"] and any(s in steps[fi + 1:] for s in STEPS[4:]):
            ctx.nontrivial(kind, wq, aq, str(wd), tuple(steps))
        ctx.see("models", kind)
        ctx.see("weights_x_act", f"{wq}/{aq}")
        if i % 23 == 0:
            ctx.sample(desc)
