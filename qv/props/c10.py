"""C10 — state_dict save/load round trips reproduce the quantized model exactly (lifecycle history checker)."""

import io
import os
import shutil
import tempfile
import warnings

import numpy as np
import torch

from qv import fp, lifecycle

META = dict(
    level="exploration",
    shards={"quick": 10, "thorough": 16},
    watchdog_s={"quick": 1500, "thorough": 5400},
    evaluations_counter="cases",
    min={"histories": 200, "serializer:pickle": 20, "serializer:weights_only": 20, "serializer:safetensors": 20,
         "target:same": 20, "target:default": 20, "target:requantize": 20, "loads_compared": 200},
    anchors=["nn/qmodule.py:QModuleMixin._save_to_state_dict",
             "nn/qmodule.py:QModuleMixin._load_from_state_dict",
             "serialization.py:safe_save",
             "serialization.py:safe_load",
             "quantize.py:requantize",
             "tensor/qtensor.py:QTensor.save_to_state_dict",
             "tensor/qbits/qbits.py:QBitsTensor.load_from_state_dict",
             "tensor/qbytes.py:QBytesTensor.load_from_state_dict",
             "tensor/qbits/packed.py:PackedTensor.load_from_state_dict",
             "tensor/qbits/qbits.py:QBitsTensor.optimize"],
    rule="case = one history: build x quantize (6 weight qtypes incl. grouped low-bit, activations None/qint8/qfloat8, "
         "3 dtypes) x (calibrate, with default or disabled streamlining) x (freeze) x state_dict x serializer {pickle, "
         "weights_only, safetensors} x target {same-quantized, default-quantized, requantize()} x forward x state_dict "
         "again, 1-3 cycles. The checker compares state dicts value by value (bytes, dtypes, shapes, strings), weight "
         "codes/scales/zero-points, qtypes, activation scales, devices and outputs on a probe set bit for bit. "
         "Non-trivial when weights are grouped low-bit or float8, or activations are on, or >=2 cycles; distinct by "
         "(model, qtypes, dtype, frozen, calibration, serializer, target, cycles)",
    assumptions=["targets are fresh instances of the same architecture (different random initial weights)",
                 "safetensors files are written to a temporary directory removed by the check"],
)

DT = [torch.float32, torch.float16, torch.bfloat16]
WQ = ["qint8", "qfloat8", "qfloat8_e4m3fn", "qfloat8_e5m2", "qint4", "qint2"]
AQ = [None, None, "qint8", "qfloat8"]


def sd_equal(a, b):
    """Returns list of differing keys (value by value, NaN-safe, dtype/shape/type sensitive)."""
    bad = []
    for k in sorted(set(a) | set(b)):
        if k not in a or k not in b:
            bad.append(k + ":missing")
            continue
        va, vb = a[k], b[k]
        if type(va) is not type(vb):
            bad.append(k + ":type")
        elif isinstance(va, torch.Tensor):
            if va.dtype != vb.dtype or tuple(va.shape) != tuple(vb.shape) or fp.plain_bytes(va) != fp.plain_bytes(vb):
                bad.append(k + ":tensor")
        elif va != vb:
            bad.append(k + ":value")
    return bad


def module_facts(model):
    """What a reloaded model must share with the saved one (codes, scales, zero-points, qtypes, activation scales)."""
    facts = {}
    for n, m in lifecycle.qmodules(model):
        facts[n + ".weight_qtype"] = str(m.weight_qtype)
        facts[n + ".activation_qtype"] = str(m.activation_qtype)
        facts[n + ".input_scale"] = fp.tensor_fp(m.input_scale) + str(m.input_scale.dtype)
        facts[n + ".output_scale"] = fp.tensor_fp(m.output_scale) + str(m.output_scale.dtype)
        if m.weight_qtype is not None:
            qw = fp.unwrap_param(m.qweight)
            facts[n + ".qweight"] = fp.tensor_fp(qw)
            facts[n + ".frozen"] = str(m.frozen)
            if m.frozen:  # a reloaded frozen weight is as frozen as the saved one (no gradient: C11)
                facts[n + ".weight_requires_grad"] = str(bool(m.weight.requires_grad))
        if getattr(m, "bias", None) is not None:
            facts[n + ".bias"] = fp.tensor_fp(m.bias)
    for n, p in model.named_parameters():
        facts["device:" + n] = str(p.device)
    return facts


def run(ctx):
    import optimum.quanto as oq

    warnings.simplefilter("ignore")
    rng = ctx.rng
    n = (300 if ctx.tier == "quick" else 6000) // ctx.nshards
    tmpdir = tempfile.mkdtemp(prefix="qv_c10_")
    try:
        for i in range(n):
            wd = DT[int(rng.integers(3))]
            wq = WQ[int(rng.integers(len(WQ)))]
            aq = AQ[int(rng.integers(len(AQ)))]
            kind = lifecycle.MODEL_KINDS[int(rng.integers(len(lifecycle.MODEL_KINDS)))]
            frozen = bool(rng.random() < 0.6)
            calib = "none" if aq is None else ["no_streamline", "no_streamline", "streamline"][int(rng.integers(3))]
            ser = ["pickle", "weights_only", "safetensors"][int(rng.integers(3))]
            target = ["same", "default", "requantize"][int(rng.integers(3))]
            cycles = int(rng.choice([1, 1, 2, 3]))
            if lifecycle.crash_hazard(kind, wd, wq, aq) or lifecycle.crash_hazard(kind, wd, wq, None):
                ctx.count("steered_around_known_crash_class")
                wq = "qfloat8"
            desc = dict(history=i, model=kind, dtype=str(wd), weights=wq, activations=aq, frozen=frozen, calibration=calib,
                        serializer=ser, target=target, cycles=cycles)
            if not ctx.case(desc):
                continue
            r = ctx.crng
            ctx.count("histories")
            has_ln = kind == "mlp_ln"
            big_low = wq in ("qint4", "qint2") and kind in ("mlp_big",)
            sig0 = dict(weights=wq if wq in ("qint4", "qint2") else ("float8" if "float8" in wq else "int8"),
                        activations="none" if aq is None else "on", frozen=frozen, target=target,
                        half=wd != torch.float32)
            try:
                model, shape = lifecycle.build(kind, wd)
                if lifecycle.hostile_rows(model, r):
                    ctx.count("models_with_degenerate_rows")
                probes = [lifecycle.batch(r, shape, wd) for _ in range(2)]
                kw = dict(weights=oq.qtypes[wq])
                if aq is not None:
                    kw["activations"] = oq.qtypes[aq]
                oq.quantize(model, **kw)
                if aq is not None:
                    with torch.no_grad(), oq.Calibration(streamline=(calib == "streamline")):
                        model(lifecycle.batch(r, shape, wd))
                # channels_last convolution weights, frozen sources only (a frozen weight is reloaded with the layout of
                # the checkpoint; a float weight takes the layout of the target, as in any torch model) and not through
                # safetensors (which refuses every non-contiguous tensor, float ones included)
                cl = kind in ("conv", "convnet", "conv_big") and frozen and ser != "safetensors" and r.random() < 0.5
                if cl and r.random() < 0.5:
                    model = model.to(memory_format=torch.channels_last)  # converted before freezing
                if frozen:
                    oq.freeze(model)
                if cl and frozen and not any(getattr(p_, "is_contiguous", lambda **k: True)(memory_format=torch.channels_last)
                                             for p_ in model.parameters() if p_.ndim == 4):
                    model = model.to(memory_format=torch.channels_last)  # ... or after
                if cl:
                    ctx.count("channels_last_models")
            except Exception as e:
                ctx.violation(dict(sig0, kind="setup_raises", exc=type(e).__name__), dict(desc=desc, msg=str(e)[:300]))
                continue
            src = model
            for cyc in range(cycles):
                try:
                    sd = src.state_dict()
                except Exception as e:
                    ctx.violation(dict(sig0, kind="state_dict_raises", exc=type(e).__name__), dict(desc=desc, msg=str(e)[:300]))
                    break
                for k, v in sd.items():
                    if type(v) is not torch.Tensor and type(v) is not str:
                        ctx.violation(dict(sig0, kind="state_dict_value_not_plain", vtype=type(v).__name__),
                                      dict(desc=desc, key=k))
                # serialize
                try:
                    if ser == "safetensors":
                        path = os.path.join(tmpdir, f"m{ctx.shard}_{i}_{cyc}.safetensors")
                        oq.safe_save(sd, path)
                        sd2 = oq.safe_load(path)
                        os.unlink(path)
                    else:
                        buf = io.BytesIO()
                        torch.save(sd, buf)
                        buf.seek(0)
                        sd2 = torch.load(buf, weights_only=(ser == "weights_only"))
                    ctx.count("serializer:" + ser)
                except Exception as e:
                    import re

                    ctx.violation(dict(sig0, kind="serializer_raises", serializer=ser, exc=type(e).__name__,
                                       msg=re.sub(r"[0-9]+", "N", str(e).splitlines()[0][:60]) if str(e) else ""),
                                  dict(desc=desc, msg=str(e)[:300]))
                    break
                bad = sd_equal(dict(sd), dict(sd2))
                if bad:
                    ctx.violation(dict(sig0, kind="serializer_changed_state_dict", serializer=ser),
                                  dict(desc=desc, keys=bad[:8]))
                # load into the target
                want = module_facts(src)
                with torch.no_grad():
                    want_out = [lifecycle.out_fp(src(x)) for x in probes]
                # the caller's dict is the caller's: a load must leave its keys and values as they were (the same dict may be
                # loaded into several models)
                sd2_before = {k_: (v_.clone() if isinstance(v_, torch.Tensor) else v_) for k_, v_ in sd2.items()}
                try:
                    tgt, _ = lifecycle.build(kind, wd)
                    if target == "same":
                        tkw = dict(kw)
                        if frozen and wq in ("qint8", "qfloat8", "qfloat8_e4m3fn", "qfloat8_e5m2") and r.random() < 0.3:
                            # a target that was quantized (and frozen) with another 8-bit qtype: the state_dict decides
                            others = [q_ for q_ in ("qint8", "qfloat8_e4m3fn", "qfloat8_e5m2") if oq.qtypes[q_].dtype != oq.qtypes[wq].dtype]
                            tkw["weights"] = oq.qtypes[others[int(r.integers(len(others)))]]
                            ctx.count("targets_with_other_8bit_qtype")
                        oq.quantize(tgt, **tkw)
                        if frozen and r.random() < 0.4:
                            oq.freeze(tgt)  # an already frozen target (reloading a checkpoint into a deployed model)
                            ctx.count("frozen_targets")
                        if r.random() < 0.3:
                            tgt.load_state_dict(sd2, assign=True)  # the assign_to_params_buffers path
                            ctx.count("loads_with_assign")
                        else:
                            tgt.load_state_dict(sd2)
                    elif target == "default":
                        oq.quantize(tgt)
                        tgt.load_state_dict(sd2)
                    else:
                        oq.requantize(tgt, sd2)
                    ctx.count("target:" + target)
                except Exception as e:
                    import re

                    ctx.violation(dict(sig0, kind="load_raises", exc=type(e).__name__, layernorm=has_ln,
                                       msg=re.sub(r"[0-9]+", "N", str(e).splitlines()[0][:50]) if str(e) else ""),
                                  dict(desc=desc, msg=str(e)[:400]))
                    break
                try:
                    got = module_facts(tgt)
                    with torch.no_grad():
                        got_out = [lifecycle.out_fp(tgt(x)) for x in probes]
                    sd3 = tgt.state_dict()
                except Exception as e:
                    import re

                    ctx.violation(dict(sig0, kind="reloaded_model_raises", exc=type(e).__name__,
                                       msg=re.sub(r"[0-9]+", "N", str(e).splitlines()[0][:50]) if str(e) else ""),
                                  dict(desc=desc, msg=str(e)[:400]))
                    break
                ctx.count("loads_compared")
                badsd = sd_equal(sd2_before, dict(sd2))
                if badsd:
                    ctx.violation(dict(sig0, kind="load_modifies_the_given_state_dict", target=target), dict(desc=desc, keys=badsd[:8]))
                elif target != "same" and r.random() < 0.35:
                    # the same dict object loaded into a second model
                    try:
                        tgt2, _ = lifecycle.build(kind, wd)
                        if target == "default":
                            oq.quantize(tgt2)
                            tgt2.load_state_dict(sd2)
                        else:
                            oq.requantize(tgt2, sd2)
                        got2 = module_facts(tgt2)
                        with torch.no_grad():
                            got2_out = [lifecycle.out_fp(tgt2(x)) for x in probes]
                        ctx.count("second_loads_of_one_dict")
                        if fp.diff(want, got2) or got2_out != want_out:
                            ctx.violation(dict(sig0, kind="second_load_of_one_dict_differs", target=target),
                                          dict(desc=desc, keys=fp.diff(want, got2)[:8]))
                    except Exception as e:
                        ctx.violation(dict(sig0, kind="second_load_of_one_dict_raises", exc=type(e).__name__, target=target),
                                      dict(desc=desc, msg=str(e)[:300]))
                d = fp.diff(want, got)
                if d:
                    kinds = sorted({k.rsplit(".", 1)[-1] if not k.startswith("device:") else "device" for k in d})
                    ctx.violation(dict(sig0, kind="reloaded_model_differs", what="+".join(kinds)[:80], layernorm=has_ln,
                                       grouped_lowbit=big_low),
                                  dict(desc=desc, keys=d[:8]))
                elif got_out != want_out:
                    ctx.violation(dict(sig0, kind="reloaded_outputs_differ"), dict(desc=desc))
                bad = sd_equal(dict(sd), dict(sd3))
                if bad and not d:
                    ctx.violation(dict(sig0, kind="second_state_dict_differs"), dict(desc=desc, keys=bad[:8]))
                src = tgt
            if wq != "qint8" or aq is not None or cycles >= 2:
                ctx.nontrivial(kind, wq, aq, str(wd), frozen, calib, ser, target, cycles)
            ctx.see("combos", f"{ser}/{target}")
            if i % 19 == 0:
                ctx.sample(desc)
    finally:
        shutil.rmtree(tmpdir, ignore_errors=True)
