"""C11 — gradients pass straight through quantization and match the float linear backward (gradient twin oracle)."""

import warnings

import numpy as np
import torch
import torch.nn as nn

from qv import attach, fp, gen, num, oracles

F64 = torch.float64

META = dict(
    level="exploration",
    shards={"quick": 10, "thorough": 16},
    watchdog_s={"quick": 1500, "thorough": 5400},
    evaluations_counter="cases",
    min={"backward_passes": 400, "grad_checks:input": 400, "grad_checks:weight": 200, "grad_checks:bias": 100,
         "frozen_checks": 80, "weight_updates": 150, "noncontiguous_upstream": 60, "quantized_inputs": 80,
         "ste_checks": 300, "ste_checks:qbits": 80, "ste_checks:activation": 60, "inputs_without_grad": 60, "eval_mode_modules": 100,
         "held_optimizer_steps": 100, "reloads_between_steps": 30,
         "many_row_inputs": 8, "backward_purity_checks": 400},
    anchors=["tensor/qtensor_func.py:QTensorLinear.forward", "tensor/qtensor_func.py:QTensorLinear.backward",
             "tensor/quantizers/symmetric.py:SymmetricQuantizer.backward", "nn/qmodule.py:QModuleMixin.qweight",
             "tensor/quantizers/affine.py:AffineQuantizer.backward", "tensor/qbits/qbits.py:QBitsDequantizer.backward",
             "tensor/qbytes.py:QBytesDequantizer.backward"],
    rule="case = quantized Linear or Conv2d (all weight qtypes, activations None/qint8/qfloat8, three dtypes, bias "
         "on/off, frozen or not) x input rank 1-4 x upstream gradient {random, one-hot, transposed (non-contiguous), "
         "expanded (stride 0), zeros} x 0-5 in-place weight updates interleaved with forwards. Gradients reaching the "
         "input, the float weight and the bias are compared with float64 autograd on the float twin (dequantized "
         "weight as leaf, the quantized input observed at the quantize_activation boundary, identity through "
         "quantize/dequantize); frozen weights and scales must have no gradient; after every update the quantized "
         "weight used by the next forward must be within one step of the updated float weight. Non-trivial when the "
         "input rank is not 3, or the upstream gradient is non-contiguous, or there is >=1 weight update; distinct by "
         "configuration tuple. Every case also runs one tensor-level straight-through check: a float leaf (rank 1-4, "
         "possibly a non-contiguous view of the leaf) -> quantize_weight / quantize_activation -> optional "
         "gradient-transparent views -> dequantize() -> backward(G): the leaf's gradient must be exactly G mapped back "
         "through the views (bit-identical: identity maps add no rounding), the scale must receive none",
    assumptions=["tolerance: dot_bound(c=8) of the corresponding contraction + 2*eps(dtype)*sum|terms|",
                 "the upstream gradient is applied to out.dequantize() when the module output is quantized"],
)

DT = [torch.float32, torch.float16, torch.bfloat16]
WQ = ["qint8", "qfloat8", "qfloat8_e4m3fn", "qfloat8_e5m2", "qint4", "qint2"]
AQ = [None, None, "qint8", "qfloat8"]
UP = ["random", "random", "onehot", "transposed", "expanded", "zeros", "const_scaled"]


DIRECTED = [(torch.float32, "qint8", "qint8", 2, 1500, 8), (torch.float32, "qfloat8", "qfloat8", 3, 3000, 16),
            (torch.float16, "qint4", "qint8", 4, 2500, 8), (torch.float32, "qint8", "qfloat8", 2, 2500, 3),
            (torch.float32, "qint2", "qint8", 3, 1500, 16), (torch.float16, "qint8", "qint8", 2, 3000, 8)]


def upstream(r, kind, shape, wd):
    if kind == "random":
        return torch.from_numpy(r.standard_normal(shape)).to(wd)
    if kind == "zeros":
        return torch.zeros(shape, dtype=wd)
    if kind == "const_scaled":
        # what out.sum() under a loss scale sends back: one constant, possibly large (mixed-precision training scales the
        # loss by 2^k); the float twin's gradients stay representable, sums taken in raw code units may not
        return torch.full(shape, float(r.choice([1.0, 64.0, 1024.0])), dtype=wd)
    if kind == "onehot":
        g = torch.zeros(shape, dtype=wd)
        g.view(-1)[int(r.integers(g.numel()))] = 1.0
        return g
    if kind == "transposed":
        if len(shape) < 2:
            return torch.from_numpy(r.standard_normal(shape)).to(wd)
        rev = tuple(reversed(shape))
        return torch.from_numpy(r.standard_normal(rev)).to(wd).permute(*reversed(range(len(shape))))
    if kind == "expanded":
        base = torch.from_numpy(r.standard_normal(shape[-1:])).to(wd)
        return base.expand(shape)
    raise KeyError(kind)


def compare(ctx, what, got, ref, absdot, K, wd, sig0, desc):
    ctx.count("grad_checks:" + what)
    if got is None:
        ctx.violation(dict(sig0, kind="gradient_missing", which=what), dict(desc=desc))
        return
    g = oracles.plain(got)
    if tuple(g.shape) != tuple(ref.shape):
        ctx.violation(dict(sig0, kind="gradient_shape", which=what), dict(desc=desc, got=list(g.shape), want=list(ref.shape)))
        return
    G = g.to(F64)
    tol = num.dot_bound(ref, absdot, 0.0, K, wd) + 2 * num.eps(wd) * absdot
    rep = ref.abs() <= 0.98 * num.fmax(wd)
    diff = (G - ref).abs()
    bad = rep & ~(diff <= tol)
    okm = rep & (tol > 0) & torch.isfinite(diff)
    if okm.any():
        ctx.maxstat(f"grad diff/tol:{what}", float((diff[okm] / tol[okm]).max()))
    if bad.any():
        ctx.violation(dict(sig0, kind="gradient_differs_from_float_twin", which=what),
                      dict(desc=desc, **oracles._first(bad, got=G, want=ref, diff=diff, tol=tol)))


def ste_check(ctx, oq, r, wd):
    """quantize -> dequantize is an identity map for gradients (tensor level, no module)."""
    wq = WQ[int(r.integers(len(WQ)))]
    act = wq in ("qint8", "qfloat8_e4m3fn", "qfloat8_e5m2") and r.random() < 0.35
    low = wq in ("qint4", "qint2")
    rank = int(r.integers(1 if act else 2, 5)) if not low else int(r.integers(2, 4))
    shape = tuple(int(r.choice([1, 2, 3, 4, 8, 32])) for _ in range(rank))
    axis = int(r.choice([0, -1]))
    gs = None
    if low:
        shape = tuple(int(r.choice([2, 4, 8, 16, 64])) for _ in range(rank))
        per = int(np.prod(shape)) // shape[axis]
        divs = [g for g in (2, 4, 8, 16, 32, 64, 128) if per % g == 0 and g <= per]
        gs = int(r.choice(divs)) if divs and r.random() < 0.7 else None
    leaf = (torch.from_numpy(r.standard_normal(shape)) * float(10.0 ** r.uniform(-3, 2))).to(wd).requires_grad_(True)
    lay = ["plain", "plain", "mul1", "transposed", "sliced"][int(r.integers(5))]
    src = leaf
    if lay == "mul1":
        src = leaf * 1.0  # a non-leaf with a grad_fn
    elif lay == "transposed" and rank >= 2 and not low:
        src = leaf.transpose(0, -1)
    elif lay == "sliced" and shape[0] >= 2 and not low:
        src = leaf[::2]
    sig = dict(prop="C11", part="ste", qtype=wq if low else ("float8" if "float8" in wq else "int8"),
               api="quantize_activation" if act else "quantize_weight", layout=lay)
    desc = dict(shape=list(shape), axis=axis, group_size=gs, dtype=str(wd), layout=lay, qtype=wq)
    scale = None
    try:
        if act:
            qmax = 127.0 if wq == "qint8" else float(torch.finfo(oq.qtypes[wq].dtype).max)
            scale = (src.detach().abs().max().to(F64) / qmax).clamp(min=1e-6).to(wd)
            if r.random() < 0.5:
                scale.requires_grad_(True)  # a scale that could receive a gradient must still get none
            q = oq.quantize_activation(src, oq.qtypes[wq], scale)
        else:
            q = oq.quantize_weight(src, oq.qtypes[wq], axis, gs) if low else oq.quantize_weight(src, oq.qtypes[wq], axis)
        dq = q.dequantize()
        if not dq.requires_grad:
            ctx.violation(dict(sig, kind="dequantized_value_detached_from_source"), dict(desc=desc))
            return
        G = upstream(r, UP[int(r.integers(len(UP)))], tuple(dq.shape), wd)
        dq.backward(G)
    except Exception as e:
        ctx.violation(dict(sig, kind="ste_raises", exc=type(e).__name__), dict(desc=desc, msg=str(e)[:300]))
        return
    ctx.count("ste_checks")
    ctx.count("ste_checks:" + ("activation" if act else "qbits" if low else "qbytes"))
    ctx.see("ste_layouts", lay)
    # reference: the same views applied to a float leaf, identity in between
    ref_leaf = torch.zeros(shape, dtype=wd).requires_grad_(True)
    rs = ref_leaf
    if lay == "mul1":
        rs = ref_leaf * 1.0
    elif lay == "transposed" and rank >= 2 and not low:
        rs = ref_leaf.transpose(0, -1)
    elif lay == "sliced" and shape[0] >= 2 and not low:
        rs = ref_leaf[::2]
    rs.backward(G)
    if leaf.grad is None:
        ctx.violation(dict(sig, kind="gradient_missing", which="ste_source"), dict(desc=desc))
        return
    if tuple(leaf.grad.shape) != tuple(ref_leaf.grad.shape) or not torch.equal(leaf.grad, ref_leaf.grad):
        bad = leaf.grad.to(F64) != ref_leaf.grad.to(F64) if tuple(leaf.grad.shape) == tuple(ref_leaf.grad.shape) else None
        ctx.violation(dict(sig, kind="quantize_dequantize_not_identity_for_gradient"),
                      dict(desc=desc, **(oracles._first(bad, got=leaf.grad.to(F64), want=ref_leaf.grad.to(F64))
                                         if bad is not None else dict(got_shape=list(leaf.grad.shape)))))
    if scale is not None and scale.grad is not None:
        ctx.violation(dict(sig, kind="scale_receives_gradient", which="activation_scale"), dict(desc=desc))
    inn = fp.inner(fp.unwrap_param(q))[0]
    for k, v in inn.items():
        if k in ("_scale", "_zeropoint") and isinstance(v, torch.Tensor) and (v.requires_grad and k == "_zeropoint"):
            ctx.violation(dict(sig, kind="inner_requires_grad", which=k), dict(desc=desc))


def run(ctx):
    import optimum.quanto as oq

    warnings.simplefilter("ignore")
    rng = ctx.rng
    n = (600 if ctx.tier == "quick" else 20_000) // ctx.nshards
    orig_qa = oq.quantize_activation
    seen = []

    def qa_spy(t, qtype, scale):
        out = orig_qa(t, qtype, scale)
        seen.append((t, out))
        return out

    with attach.Patches() as P:
        P.everywhere(orig_qa, qa_spy)
        for i in range(n):
            wd = DT[int(rng.integers(3))]
            wq = WQ[int(rng.integers(len(WQ)))]
            aq = AQ[int(rng.integers(len(AQ)))]
            conv = bool(rng.random() < 0.35) and i >= len(DIRECTED)
            bias = bool(rng.random() < 0.6)
            frozen = bool(rng.random() < 0.3)
            upk = UP[int(rng.integers(len(UP)))]
            n_upd = 0 if frozen else int(rng.integers(0, 6))
            if conv:
                groups = int(rng.choice([1, 1, 2]))
                cin, cout, k = groups * int(rng.integers(1, 3)), groups * int(rng.integers(1, 4)), int(rng.integers(1, 4))
                rank = 4
                xshape = (int(rng.integers(1, 3)), cin, k + int(rng.integers(1, 4)), k + int(rng.integers(1, 4)))
            else:
                fin = int(rng.choice([3, 8, 16, 33, 160]))
                fout = int(rng.choice([2, 5, 8, 16]))
                rank = int(rng.integers(1, 5))
                xshape = {1: (fin,), 2: (int(rng.integers(1, 20)), fin), 3: (2, int(rng.integers(1, 6)), fin),
                          4: (2, 1, 3, fin)}[rank]
                if rank >= 2 and rng.random() < 0.1:
                    # many rows (a batch of token sequences): long sums in the weight gradient, sizes on both sides of the
                    # powers of two a blocked implementation would choose
                    rows = int(rng.choice([256, 1024, 1026, 1500, 1900, 2500, 3000]))
                    if rng.random() < 0.7:
                        upk = "random"  # every row contributes
                    fin = int(rng.choice([3, 8, 16]))
                    xshape = {2: (rows,), 3: (2, rows // 2) if rows % 2 == 0 else (1, rows),
                              4: (2, 1, rows // 2) if rows % 2 == 0 else (1, 1, rows)}[rank] + (fin,)
                    n_upd = min(n_upd, 1)
                if i < len(DIRECTED):
                    # the first cases are fixed: many rows with a large residue beyond 1024, quantized activations, trainable
                    # weights, every row contributing, float32 / float16 (tight bounds) - not left to the draw
                    wd, wq, aq, rank, rows, fin = DIRECTED[i]
                    frozen, upk, n_upd = False, "random", min(n_upd, 1)
                    xshape = {2: (rows,), 3: (2, rows // 2), 4: (2, 1, rows // 2)}[rank] + (fin,)
                if gen.int8pack_crash_class(wd, wq, fin, quantized_activations=aq is not None):
                    wq = "qfloat8"
            desc = dict(case=i, dtype=str(wd), weights=wq, activations=aq, conv=conv, bias=bias, frozen=frozen, upstream=upk,
                        updates=n_upd, xshape=list(xshape))
            if not ctx.case(desc):
                continue
            r = ctx.crng
            if not conv and int(np.prod(xshape[:-1])) >= 256:
                ctx.count("many_row_inputs")
                if aq is not None and not frozen and int(np.prod(xshape[:-1])) % 1024:
                    ctx.count("many_row_inputs:quantized_activations_trainable_weight_odd_rows")
            ste_check(ctx, oq, r, wd)
            sig0 = dict(module="conv" if conv else "linear",
                        weights=wq if wq in ("qint4", "qint2") else ("float8" if "float8" in wq else "int8"),
                        activations="none" if aq is None else "on", frozen=frozen)
            try:
                layer = nn.Conv2d(cin, cout, k, groups=groups, bias=bias, padding=int(r.integers(0, 2))) if conv else \
                    nn.Linear(fin, fout, bias=bias)
                model = nn.Sequential(layer).to(wd)
                kw = dict(weights=oq.qtypes[wq])
                if aq is not None:
                    kw["activations"] = oq.qtypes[aq]
                oq.quantize(model, **kw)
                q = model[0]
                if aq is not None:
                    with torch.no_grad(), oq.Calibration(streamline=False):
                        model(torch.from_numpy(r.standard_normal(xshape)).to(wd))
                if frozen:
                    oq.freeze(model)
                if r.random() < 0.4:
                    # eval mode is not no_grad: fine-tuning with dropout / batch-norm switched off, sensitivity analyses
                    model.eval()
                    ctx.count("eval_mode_modules")
                # a training loop creates its optimizer once, on the parameters of the quantized model, and keeps it: anything
                # that happens between two steps (resuming from a checkpoint, moves that move nothing, mode switches) must
                # leave the optimizer training the weights the module's forward quantizes
                held = torch.optim.SGD(model.parameters(), lr=1.0) if (not frozen and n_upd and r.random() < 0.6) else None
            except Exception as e:
                ctx.violation(dict(sig0, kind="setup_raises", exc=type(e).__name__), dict(desc=desc, msg=str(e)[:200]))
                continue
            for step in range(n_upd + 1):
                if held is not None and r.random() < 0.5:
                    ev = ["reload_own_state", "reload_own_state_from_disk", "to_same_dtype", "train_toggle", "requires_grad_"][int(r.integers(5))]
                    try:
                        if ev.startswith("reload_own_state"):
                            import copy
                            import io

                            ckpt = copy.deepcopy(model.state_dict())
                            if ev.endswith("disk"):
                                bio = io.BytesIO()
                                torch.save(ckpt, bio)
                                bio.seek(0)
                                ckpt = torch.load(bio, weights_only=False)
                            model.load_state_dict(ckpt)
                            ctx.count("reloads_between_steps")
                        elif ev == "to_same_dtype":
                            model.to(wd).to("cpu")
                        elif ev == "train_toggle":
                            model.train(not model.training)
                        else:
                            model.requires_grad_(True)
                        ctx.see("events_between_steps", ev)
                    except Exception as e:
                        ctx.violation(dict(sig0, kind="event_between_steps_raises", event=ev, exc=type(e).__name__),
                                      dict(desc=desc, step=step, msg=str(e)[:300]))
                        break
                x = torch.from_numpy(r.standard_normal(xshape)).to(wd)
                lay = r.random()
                if lay < 0.2 and x.ndim >= 3:  # what a transpose upstream produces (same values, permuted strides)
                    x = x.transpose(0, -2).contiguous().transpose(0, -2)
                    ctx.count("noncontiguous_inputs")
                elif lay < 0.3 and x.ndim == 4:
                    x = x.contiguous(memory_format=torch.channels_last)
                    ctx.count("noncontiguous_inputs")
                elif lay < 0.4 and x.ndim == 2:
                    x = x.t().contiguous().t()
                    ctx.count("noncontiguous_inputs")
                # the first layer of a network gets data, not an activation: its input does not require a gradient while
                # its weight and bias still do
                x_needs_grad = bool(r.random() < 0.75) or frozen
                x = x.detach().requires_grad_(x_needs_grad)
                if not x_needs_grad:
                    ctx.count("inputs_without_grad")
                model.zero_grad(set_to_none=True)
                qin = None
                try:
                    inp = x
                    if aq is not None and r.random() < 0.45:
                        # the module is fed an already quantized activation (same or another qtype), as the next layer of a
                        # model would be: the gradient must still reach the float tensor it was quantized from
                        qin = ["qint8", "qfloat8_e4m3fn", "qfloat8_e5m2"][int(r.integers(3))]
                        qmax = 127.0 if qin == "qint8" else float(torch.finfo(oq.qtypes[qin].dtype).max)
                        sc = (x.detach().abs().max().to(F64) / qmax).clamp(min=1e-6).to(wd)
                        inp = orig_qa(x, oq.qtypes[qin], sc)
                        ctx.count("quantized_inputs")
                    seen.clear()
                    out = model(inp)
                    o = out.dequantize() if hasattr(out, "qtype") else out
                    G = upstream(r, upk, tuple(o.shape), wd)
                    if not G.is_contiguous():
                        ctx.count("noncontiguous_upstream")
                    # a backward pass reads: the upstream gradient (other consumers of the same output receive the very same
                    # tensor), the input and the parameters are left as they were
                    pure0 = (fp.plain_bytes(G), fp.plain_bytes(x.detach()), fp.tensor_fp(q.weight.detach()),
                             None if q.bias is None else fp.plain_bytes(q.bias.detach()))
                    o.backward(G)
                    ctx.count("backward_passes")
                    pure1 = (fp.plain_bytes(G), fp.plain_bytes(x.detach()), fp.tensor_fp(q.weight.detach()),
                             None if q.bias is None else fp.plain_bytes(q.bias.detach()))
                    ctx.count("backward_purity_checks")
                    for what, b0, b1 in zip(("upstream_gradient", "input", "weight", "bias"), pure0, pure1):
                        if b0 != b1:
                            ctx.violation(dict(sig0, kind="backward_modifies_" + what, upstream=upk), dict(desc=desc, step=step))
                except Exception as e:
                    import re

                    ctx.violation(dict(sig0, kind="forward_or_backward_raises", exc=type(e).__name__, upstream=upk,
                                       rank=len(xshape), msg=re.sub(r"[0-9]+", "N", str(e).splitlines()[0][:60]) if str(e) else ""),
                                  dict(desc=desc, step=step, msg=str(e)[:300]))
                    break
                # ---- float64 twin
                with torch.no_grad():
                    W64 = oracles.plain(q.qweight.dequantize()).to(F64)
                    x_eff = x.detach()
                    if aq is not None:
                        # what the module actually fed to its float function: its own first quantization of something of the
                        # input's shape (input quantization or re-quantization); else the quantized input as given
                        cand = [qo for (t, qo) in seen if tuple(t.shape) == tuple(x.shape)]
                        if qin is None:
                            if not cand:
                                ctx.violation(dict(sig0, kind="input_not_quantized"), dict(desc=desc))
                                break
                            x_eff = oracles.plain(cand[0].dequantize())
                        else:
                            same = oq.qtypes[qin] == q.activation_qtype
                            if not same and (not cand or tuple(o.shape) == tuple(x.shape) and len(cand) < 2):
                                ctx.violation(dict(sig0, kind="input_not_requantized"), dict(desc=desc))
                                break
                            x_eff = oracles.plain(inp.dequantize()) if same else oracles.plain(cand[0].dequantize())
                    X64 = x_eff.to(F64)
                    G64 = oracles.plain(G).to(F64)
                Wl = W64.clone().requires_grad_(True)
                Xl = X64.clone().requires_grad_(True)
                b64 = q.bias.detach().to(F64).clone().requires_grad_(True) if q.bias is not None else None
                Wa, Xa, Ga = W64.abs().clone().requires_grad_(True), X64.abs().clone().requires_grad_(True), G64.abs()
                if conv:
                    hp = dict(stride=q.stride, padding=q.padding, dilation=q.dilation, groups=q.groups)
                    y = torch.nn.functional.conv2d(Xl, Wl, b64, **hp)
                    ya = torch.nn.functional.conv2d(Xa, Wa, None, **hp)
                    Kx, Kw = W64.shape[0] // q.groups * W64.shape[2] * W64.shape[3], int(G64.numel() // G64.shape[1])
                else:
                    y = torch.nn.functional.linear(Xl, Wl, b64)
                    ya = torch.nn.functional.linear(Xa, Wa)
                    Kx, Kw = W64.shape[0], max(1, int(G64.numel() // G64.shape[-1]))
                grads = torch.autograd.grad((y * G64).sum(), [Xl, Wl] + ([b64] if b64 is not None else []), allow_unused=True)
                gabs = torch.autograd.grad((ya * Ga).sum(), [Xa, Wa])
                if x_needs_grad:
                    compare(ctx, "input", x.grad, grads[0], gabs[0], Kx, wd, sig0, desc)
                if frozen:
                    ctx.count("frozen_checks")
                    wg = q.weight.grad
                    if wg is not None:
                        ctx.violation(dict(sig0, kind="frozen_weight_receives_gradient"),
                                      dict(desc=desc, grad_type=type(wg).__name__, requires_grad=bool(q.weight.requires_grad)))
                else:
                    compare(ctx, "weight", q.weight.grad, grads[1], gabs[1], Kw, wd, sig0, desc)
                if b64 is not None:
                    bsum = G64.abs().sum(dim=tuple(d for d in range(G64.ndim) if d != (1 if conv else G64.ndim - 1)))
                    compare(ctx, "bias", q.bias.grad, grads[2], bsum, Kw, wd, sig0, desc)
                for sn in ("input_scale", "output_scale"):
                    sv = getattr(q, sn)
                    if sv.grad is not None or sv.requires_grad:
                        ctx.violation(dict(sig0, kind="scale_receives_gradient", which=sn), dict(desc=desc))
                # ---- in-place weight update: the next forward must re-quantize from the current float weights
                if step < n_upd:
                    if step == 0:
                        base_mag = float(q.weight.detach().abs().max())
                    mag = base_mag * float(r.uniform(2, 10))  # relative to the initial weights: updates must not blow up
                    delta = (torch.from_numpy(r.standard_normal(tuple(q.weight.shape))) * mag).to(wd)
                    style = ["no_grad_add_", "data_add_", "data_copy_", "sgd_step"][int(r.integers(4))]
                    wg_real = q.weight.grad
                    if held is not None and r.random() < 0.7 and wg_real is not None and bool(torch.isfinite(wg_real).all()) \
                            and float(wg_real.abs().max()) > 0:
                        style = "held_sgd_step"
                    if style == "held_sgd_step":
                        # zero_grad / forward / backward happened above on this very module: the step of the optimizer created
                        # at the start must move the weight the next forward quantizes, by -lr * (the gradient just checked)
                        lr = mag / float(wg_real.abs().max())
                        for g_ in held.param_groups:
                            g_["lr"] = lr
                        if q.bias is not None:
                            q.bias.grad = None
                        w_before = q.weight.detach().to(F64).clone()
                        g_before = wg_real.detach().to(F64).clone()
                        held.step()
                        ctx.count("held_optimizer_steps")
                        w_exp = w_before - lr * g_before
                        w_got = q.weight.detach().to(F64)
                        bad = ~((w_got - w_exp).abs() <= 8 * num.eps(wd) * (w_before.abs() + (lr * g_before).abs()) + 1e-30)
                        if bad.any():
                            ctx.violation(dict(sig0, kind="optimizer_step_not_reflected_in_module_weight"),
                                          dict(desc=desc, step=step, **oracles._first(bad, got=w_got, expected=w_exp)))
                    elif style == "no_grad_add_":
                        with torch.no_grad():
                            q.weight.add_(delta)
                    elif style == "data_add_":  # the classic manual SGD step: p.data.add_(-lr * p.grad)
                        q.weight.data.add_(delta)
                    elif style == "data_copy_":
                        q.weight.data.copy_(q.weight.data + delta)
                    else:
                        q.weight.grad = (-delta).clone()
                        torch.optim.SGD([q.weight], lr=1.0).step()
                    ctx.count("weight_updates")
                    ctx.see("update_styles", style)
                    if r.random() < 0.5:  # an evaluation forward before looking at the weight (fills any cache)
                        with torch.no_grad():
                            model(x.detach())
                    with torch.no_grad():
                        qw = q.qweight
                        dqw = oracles.plain(qw.dequantize()).to(F64)
                        w_now = q.weight.detach().to(F64)
                        inn = fp.inner(fp.unwrap_param(qw))[0]
                        sc = oracles.plain(inn["_scale"]).to(F64).abs().max()
                        # float8 grids are relative: one step is at most |w|/4 (e5m2) near w, plus the scale for int grids
                        code_step = 1.0 if qw.qtype.dtype in (torch.int8,) or qw.qtype.bits < 8 else num.smallest_subnormal(qw.qtype.dtype)
                        step_bound = sc * code_step + w_now.abs() * 0.26 + 8 * num.eps(wd) * w_now.abs()
                        stale = (dqw - w_now).abs() > step_bound
                        if stale.any():
                            ctx.violation(dict(sig0, kind="forward_uses_stale_quantized_weight", update=style),
                                          dict(desc=desc, step=step, **oracles._first(stale, dq=dqw, w=w_now)))
                        # and the forward itself (evaluation mode) must use that weight
                        xe = torch.from_numpy(r.standard_normal(xshape)).to(wd)
                        seen.clear()
                        oe = model(xe)
                        oe = oracles.plain(oe.dequantize() if hasattr(oe, "qtype") else oe).to(F64)
                        if aq is None:
                            Xe = xe.to(F64)
                            be = q.bias.detach().to(F64) if q.bias is not None else None
                            if conv:
                                hp = dict(stride=q.stride, padding=q.padding, dilation=q.dilation, groups=q.groups)
                                refe = torch.nn.functional.conv2d(Xe, dqw, be, **hp)
                                ade = torch.nn.functional.conv2d(Xe.abs(), dqw.abs(), None, **hp)
                                Ke = dqw[0].numel()
                            else:
                                refe = torch.nn.functional.linear(Xe, dqw, be)
                                ade = torch.nn.functional.linear(Xe.abs(), dqw.abs())
                                Ke = dqw.shape[1]
                            tole = num.dot_bound(refe, ade, 0.0 if be is None else (be.abs().reshape(1, -1, 1, 1) if conv else be.abs()),
                                                 Ke, wd) + 2 * num.eps(wd) * ade
                            ctx.count("eval_forwards_after_update")
                            rep = refe.abs() <= 0.98 * num.fmax(wd)
                            if tuple(oe.shape) == tuple(refe.shape) and bool((rep & ~((oe - refe).abs() <= tole)).any()):
                                ctx.violation(dict(sig0, kind="forward_after_update_differs_from_twin", update=style),
                                              dict(desc=desc, step=step))
            if len(xshape) != 3 or upk in ("transposed", "expanded") or n_upd >= 1:
                ctx.nontrivial(tuple(sorted((k, str(v)) for k, v in desc.items() if k != "case")))
            if i % 41 == 0:
                ctx.sample(desc)
