"""C12 — calibration scales are the configured-momentum average of batch absmax ranges (history recorder + EMA checker)."""

import warnings

import numpy as np
import torch
import torch.nn as nn

from qv import attach, fp, gen, num, oracles

F64 = torch.float64

META = dict(
    level="exploration",
    shards={"quick": 8, "thorough": 16},
    watchdog_s={"quick": 1500, "thorough": 5400},
    evaluations_counter="cases",
    min={"sequences": 200, "scale_updates_checked": 1000, "adopted_scales_checked": 50, "saturation_checks": 100,
         "sequences_reusing_one_context_object": 20},
    anchors=["calibrate.py:Calibration.calibrate_input",
             "calibrate.py:Calibration.calibrate_output",
             "calibrate.py:_updated_scale",
             "calibrate.py:absmax_scale",
             "calibrate.py:Calibration.__enter__"],
    rule="case = one calibration history: model {Linear, Conv2d, LayerNorm alone, chains} x activation qtype x dtype x 1-3 "
         "successive Calibration contexts with momenta from {0, 0.1, 0.5, 0.9, 0.99, random} x 1-12 batches with "
         "log-uniform magnitudes over 1e-3..1e3 (including a batch whose range is exactly qmax) x streamline on/off. "
         "A recorder at every quantized module's own boundary (instance pre/post hooks, which run after the global "
         "calibration hooks, and a spy on the instance's qforward) logs input absmax or quantized-input scale, raw output "
         "absmax and the scales read after each batch; an offline checker replays the float64 EMA recurrence. "
         "Non-trivial when >=3 batches have ranges differing by >=10x and the momentum is not 0.9; distinct by "
         "(model, qtype, dtype, momenta, batch magnitudes)",
    assumptions=["the recurrence continues across successive contexts (first batch ever initialises)",
                 "tolerance: 4*eps(dtype)*(t+1) relative + 4 subnormal ulps (scales are stored in the model dtype)",
                 "modules whose activation quantization was switched off by streamlining are no longer recorded"],
)

DT = [torch.float32, torch.float16, torch.bfloat16]
AQ = ["qint8", "qfloat8_e4m3fn", "qfloat8_e5m2"]
MOM = [0.0, 0.1, 0.5, 0.9, 0.99]


def qmax_of(aq):
    return 127.0 if aq == "qint8" else (448.0 if "e4m3" in aq or aq == "qfloat8" else 57344.0)


def build(kind, wd):
    if kind == "linear":
        return nn.Sequential(nn.Linear(16, 8)).to(wd), (4, 16)
    if kind == "conv":
        return nn.Sequential(nn.Conv2d(2, 3, 3, padding=1)).to(wd), (2, 2, 5, 5)
    if kind == "layernorm":
        return nn.Sequential(nn.LayerNorm(16)).to(wd), (4, 16)
    if kind == "chain":
        return nn.Sequential(nn.Linear(16, 16), nn.ReLU(), nn.Linear(16, 16), nn.LayerNorm(16), nn.Linear(16, 8)).to(wd), (4, 16)
    if kind == "chain_direct":  # quantized outputs feed the next quantized module directly
        return nn.Sequential(nn.Linear(16, 16), nn.Linear(16, 8)).to(wd), (4, 16)
    if kind == "attention":  # products of quantized activations and transposes between the layers, a float residual
        from qv import lifecycle

        return lifecycle.Attention(16).to(wd), (2, 5, 16)
    raise KeyError(kind)


class Recorder:
    """Per-module event log, written at the module's own boundary."""

    def __init__(self, model):
        self.log = {}
        self.handles = []
        self.raw = {}
        self.momentum = None
        for name, m in model.named_modules():
            if hasattr(m, "activation_qtype") and hasattr(m, "qforward"):
                self.log[name] = []
                self.handles.append(m.register_forward_pre_hook(self._pre(name)))
                self.handles.append(m.register_forward_hook(self._post(name)))
                orig = m.qforward

                def spy(inp, _orig=orig, _name=name):
                    out = _orig(inp)
                    o = out.dequantize() if hasattr(out, "qtype") else out
                    self.raw[_name] = float(oracles.plain(o).abs().max().to(F64))
                    return out

                m.qforward = spy
        self.pending = {}

    def _pre(self, name):
        def hook(module, args):
            if module.activation_qtype is None or self.momentum is None:
                self.pending.pop(name, None)
                return None
            x = args[0]
            if hasattr(x, "qtype"):
                ev = dict(kind="q", value=float(oracles.plain(fp.inner(x)[0]["_scale"]).to(F64).max()))
            else:
                ev = dict(kind="f", value=float(oracles.plain(x).abs().max().to(F64)))
            ev["aq"] = module.activation_qtype.name
            ev["m"] = self.momentum
            ev["in_scale"] = float(module.input_scale.detach().to(F64))
            ev["in_dtype"] = str(module.input_scale.dtype)
            self.pending[name] = ev
            return None

        return hook

    def _post(self, name):
        def hook(module, args, out):
            ev = self.pending.pop(name, None)
            if ev is None:
                return None
            ev["raw"] = self.raw.get(name)
            ev["out_scale"] = float(module.output_scale.detach().to(F64))
            ev["still_on"] = module.activation_qtype is not None
            self.log[name].append(ev)
            return None

        return hook

    def close(self):
        for h in self.handles:
            h.remove()


def check_log(ctx, name, events, wd, sig0, desc):
    """Replay the EMA recurrence in float64 and compare with the scales observed after every batch."""
    s_in = s_out = None  # None = not initialised yet
    tiny = num.smallest_subnormal(wd)
    e = num.eps(wd)
    t = 0
    for ev in events:
        t += 1
        qmax = qmax_of(ev["aq"])
        m = ev["m"]
        # ---- input scale
        if ev["kind"] == "q":
            want_in = ev["value"]
            ctx.count("adopted_scales_checked")
            s_in = want_in
            tol = 2 * e * abs(want_in) + 4 * tiny
            how = "adopt"
        else:
            new = max(ev["value"] / qmax, 0.0)
            prev = s_in
            s_in = new if s_in is None else m * s_in + (1.0 - m) * new
            want_in = s_in
            tol = 4 * e * (t + 1) * abs(want_in) + 4 * tiny
            how = "init" if prev is None else "ema"
        ctx.count("scale_updates_checked")
        if not abs(ev["in_scale"] - want_in) <= tol:
            mech = classify(ev["in_scale"], prev if ev["kind"] == "f" else None, ev["value"] / qmax, m, e, t, tiny)
            ctx.violation(dict(sig0, kind="input_scale_not_the_configured_average", mechanism=mech, how=how),
                          dict(desc=desc, module=name, batch=t, got=ev["in_scale"], want=want_in, momentum=m, new=ev["value"] / qmax,
                               prev=prev))
            s_in = ev["in_scale"]  # resynchronise: report a mechanism once, not its consequences
        elif want_in != 0:
            ctx.maxstat("in_scale rel.err/tol", abs(ev["in_scale"] - want_in) / tol)
        # ---- output scale
        if ev["raw"] is None:
            ctx.count("raw_output_not_observed")
            continue
        new = ev["raw"] / qmax
        prev = s_out
        s_out = new if s_out is None else m * s_out + (1.0 - m) * new
        tol = 4 * e * (t + 1) * abs(s_out) + 4 * tiny + 2 * e * new
        ctx.count("scale_updates_checked")
        if not abs(ev["out_scale"] - s_out) <= tol:
            mech = classify(ev["out_scale"], prev, new, m, e, t, tiny)
            ctx.violation(dict(sig0, kind="output_scale_not_the_configured_average", mechanism=mech,
                               how="init" if prev is None else "ema"),
                          dict(desc=desc, module=name, batch=t, got=ev["out_scale"], want=s_out, momentum=m, new=new, prev=prev))
            s_out = ev["out_scale"]
        elif s_out != 0:
            ctx.maxstat("out_scale rel.err/tol", abs(ev["out_scale"] - s_out) / tol)


def classify(got, prev, new, m, e, t, tiny):
    """Arithmetic relation that characterises a scale mismatch."""
    def close(a, b):
        return abs(a - b) <= 4 * e * max(abs(a), abs(b)) + 4 * tiny

    if prev is not None:
        if close(got, new) and abs(prev - 1.0) <= 4 * e:
            return "scale_equal_to_1_restarts_average"
        if close(got, 0.9 * prev + 0.1 * new) and abs(m - 0.9) > 1e-9:
            return "uses_momentum_0.9"
        if close(got, new):
            return "average_restarted"
        if close(got, (1 - m) * prev + m * new):
            return "momentum_terms_swapped"
    return "other"


def run(ctx):
    import optimum.quanto as oq

    warnings.simplefilter("ignore")
    rng = ctx.rng
    n = (300 if ctx.tier == "quick" else 8000) // ctx.nshards
    orig_qa = oq.quantize_activation
    sat = {"on": False, "sig0": None, "desc": None}

    def qa_spy(t, qtype, scale):
        if sat["on"] and type(t) is torch.Tensor and scale.numel() == 1:
            ctx.count("saturation_checks")
            qmax = qmax_of(qtype.name)
            amax = float(t.detach().abs().max().to(F64))
            s = float(scale.detach().to(F64))
            wd = t.dtype
            if not amax <= qmax * (s + 4 * float(num.ulp(torch.tensor(s, dtype=F64), wd))) * (1 + 4 * num.eps(wd)):
                ctx.violation(dict(sat["sig0"], kind="activation_saturates_after_single_batch_calibration"),
                              dict(desc=sat["desc"], absmax=amax, scale=s, qmax=qmax))
        return orig_qa(t, qtype, scale)

    with attach.Patches() as P:
        P.everywhere(orig_qa, qa_spy)
        for i in range(n):
            wd = DT[int(rng.integers(3))]
            aq = AQ[int(rng.integers(3))]
            kind = ["linear", "conv", "layernorm", "chain", "chain_direct", "attention"][int(rng.integers(6))]
            nctx = int(rng.choice([1, 1, 2, 3]))
            moms = [float(MOM[rng.integers(len(MOM))]) if rng.random() < 0.8 else float(rng.uniform(0, 0.999))
                    for _ in range(nctx)]
            nb = [int(rng.integers(1, 13 if nctx == 1 else 6)) for _ in range(nctx)]
            streamline = bool(rng.random() < 0.3)
            wq = ["qint8", "qfloat8", "qint4"][int(rng.integers(3))]
            if gen.int8pack_crash_class(wd, wq, 16, quantized_activations=False):  # streamlining may disable activations
                wq = "qfloat8"
            desc = dict(history=i, model=kind, dtype=str(wd), activations=aq, weights=wq, momenta=moms, batches=nb,
                        streamline=streamline)
            if not ctx.case(desc):
                continue
            r = ctx.crng
            ctx.count("sequences")
            sig0 = dict(activations="float8" if "float8" in aq else "int8")
            model, shape = build(kind, wd)
            model.eval()
            oq.quantize(model, weights=oq.qtypes[wq], activations=oq.qtypes[aq])
            rec = Recorder(model)
            mags = []
            try:
                with torch.no_grad():
                    first_batch = None
                    reuse_buffer = bool(r.random() < 0.3)
                    buf = None
                    if reuse_buffer:
                        ctx.count("sequences_through_one_buffer")
                    # one Calibration object may serve several successive `with` blocks (ctx = Calibration(...); with ctx: ...;
                    # with ctx: ...): every block calibrates
                    shared = None
                    if nctx >= 2 and r.random() < 0.4:
                        for ci in range(1, nctx):
                            moms[ci] = moms[0]
                        shared = oq.Calibration(momentum=moms[0], streamline=streamline)
                        ctx.count("sequences_reusing_one_context_object")
                    for ci in range(nctx):
                        dbg = bool(r.random() < 0.1) and shared is None  # debug=True only prints; it must not change what is computed
                        if dbg:
                            ctx.count("contexts_with_debug")
                        import contextlib
                        import io as _io

                        with contextlib.redirect_stdout(_io.StringIO()) if dbg else contextlib.nullcontext(), \
                                (shared if shared is not None else oq.Calibration(momentum=moms[ci], streamline=streamline, debug=dbg)):
                            rec.momentum = moms[ci]
                            for b in range(nb[ci]):
                                # attention squares its input magnitude (q.k^T): keep the float model far from float16's
                                # overflow, which is no quantization matter
                                mag = float(np.exp(r.uniform(np.log(1e-3), np.log(1e3 if kind != "attention" else 8.0))))
                                x = torch.from_numpy(r.standard_normal(shape)).to(F64)
                                x = x / x.abs().max() * mag
                                if r.random() < 0.12 and kind != "attention":
                                    x = x / x.abs().max() * qmax_of(aq) if qmax_of(aq) < 1e3 else x  # range == qmax -> scale 1.0
                                    mag = float(x.abs().max())
                                x = x.to(wd)
                                if reuse_buffer:
                                    # a preallocated input buffer refilled in place: the same tensor object carries every batch
                                    if buf is None:
                                        buf = torch.empty_like(x)
                                    buf.copy_(x)
                                    x = buf
                                if first_batch is None:
                                    first_batch = x.clone()
                                mags.append(mag)
                                model(x)
                        rec.momentum = None
                    # single-batch calibration => no saturation when the same batch is run again (fresh model)
                    m2, _ = build(kind, wd)
                    m2.eval()
                    oq.quantize(m2, weights=oq.qtypes[wq], activations=oq.qtypes[aq])
                    with oq.Calibration(momentum=moms[0], streamline=False):
                        m2(first_batch)
                    sat.update(on=True, sig0=sig0, desc=desc)
                    m2(first_batch)
                    sat["on"] = False
            except Exception as e:
                sat["on"] = False
                ctx.violation(dict(sig0, kind="calibration_raises", exc=type(e).__name__), dict(desc=desc, msg=str(e)[:300]))
                rec.close()
                continue
            rec.close()
            for name, events in rec.log.items():
                if events:
                    check_log(ctx, name, events, wd, sig0, desc)
                    ctx.see("modules_recorded", type(model.get_submodule(name)).__name__)
            spread = len(mags) >= 3 and max(mags) / max(min(mags), 1e-30) >= 10
            if spread and any(abs(m - 0.9) > 1e-9 for m in moms):
                ctx.nontrivial(kind, aq, str(wd), tuple(moms), tuple(round(m, 6) for m in mags))
            if i % 23 == 0:
                ctx.sample(dict(desc, magnitudes=[round(m, 5) for m in mags[:8]],
                                first_module_log=[{k: (round(v, 8) if isinstance(v, float) else v) for k, v in ev.items()}
                                                  for ev in next(iter(rec.log.values()), [])[:3]]))
