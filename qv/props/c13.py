"""C13 — calibration is scoped; inference and quantization are free of side effects (registry/purity monitor + failpoints)."""

import warnings

import numpy as np
import torch
import torch.nn as nn

from qv import fp, gen, lifecycle, oracles, reach

META = dict(
    level="fault_enumeration",
    shards={"quick": 8, "thorough": 16},
    watchdog_s={"quick": 1500, "thorough": 5400},
    evaluations_counter="executions",
    min={"histories": 100, "faults_injected": 20, "faults_fired": 20, "registry_comparisons": 200, "purity_checks": 300,
         "library_purity_checks": 200, "forward_exception_exits": 10, "nested_contexts": 10, "histories_with_debug_contexts": 10, "twin_equivalence_checks": 100, "weights_only_models": 100, "glue_models": 200},
    anchors=["calibrate.py:Calibration.__enter__", "calibrate.py:Calibration.__exit__",
             "calibrate.py:Calibration.calibrate_input", "calibrate.py:Calibration.calibrate_output",
             "library/ops.py:disable_extensions", "nn/qmodule.py:QModuleMixin.forward"],
    rule="case = one history of enter/exit events of Calibration contexts (sequential, nested distinct instances, one "
         "instance reused sequentially, one instance re-entered while active) with exits by an exception raised by a "
         "module's forward or by an injected fault: every (function, k-th entry) pair of {calibrate_input, "
         "calibrate_output, _updated_scale, absmax_scale, qforward, QModuleMixin.forward, Calibration.__torch_function__} "
         "reached by the fault-free run of the history is injected once (sys.monitoring failpoints); interleaved with "
         "forwards of calibrated / frozen / unfrozen models and with quantize, freeze, quantize_weight, "
         "quantize_activation and disable_extensions (also left by exception). Snapshots of torch's global module-hook "
         "registries, of the torch-function mode stack and of the extension switch are compared around every context; "
         "bit fingerprints of every parameter/buffer/qtype around every inference; of the float operands around library "
         "calls. Non-trivial when the history contains an exception exit or nesting; distinct by (history shape, fault point)",
    assumptions=["fault points are function entries (PY_START): faults between two statements of one function are not "
                 "injected", "state changes inside a context (scales) are allowed; only registries and mode stack must "
                 "be restored on exit"],
)

DT = [torch.float32, torch.float16, torch.bfloat16]
FAULT_FUNCS = ["calibrate.py:Calibration.calibrate_input", "calibrate.py:Calibration.calibrate_output",
               "calibrate.py:_updated_scale", "calibrate.py:absmax_scale", "nn/qlinear.py:QLinear.qforward",
               "nn/qconv2d.py:QConv2d.qforward", "nn/qlayernorm.py:QLayerNorm.qforward", "nn/qmodule.py:QModuleMixin.forward",
               "calibrate.py:Calibration.__torch_function__", "tensor/qactivation.py:quantize_activation",
               "tensor/qweight.py:quantize_weight"]


class Injected(Exception):
    pass


class Boom(nn.Module):
    """A module whose forward raises on demand."""

    def __init__(self):
        super().__init__()
        self.armed = False

    def forward(self, x):
        if self.armed:
            raise Injected("forward raised")
        return x


def registries():
    import torch.nn.modules.module as M
    from optimum.quanto.library import ops as qops

    snap = {}
    for name in ("_global_forward_hooks", "_global_forward_pre_hooks", "_global_backward_hooks",
                 "_global_backward_pre_hooks", "_global_module_registration_hooks", "_global_buffer_registration_hooks",
                 "_global_parameter_registration_hooks", "_global_forward_hooks_always_called",
                 "_global_forward_hooks_with_kwargs"):
        d = getattr(M, name, None)
        if d is not None:
            snap[name] = [(k, id(v)) for k, v in d.items()] if hasattr(d, "items") else repr(d)
    snap["function_mode_stack"] = [id(m) for m in torch.overrides._get_current_function_mode_stack()]
    snap["ext_enabled"] = qops._ext_enabled
    # process-wide torch state that a side-effect free call must leave alone
    snap["grad_enabled"] = torch.is_grad_enabled()
    snap["default_dtype"] = str(torch.get_default_dtype())
    snap["rng_state"] = hash(torch.get_rng_state().numpy().tobytes())
    snap["dispatch_mode_stack"] = len(torch.utils._python_dispatch._get_current_dispatch_mode_stack())
    return snap


def cmp_registries(ctx, before, after, sig, detail):
    ctx.count("registry_comparisons")
    bad = [k for k in before if before[k] != after.get(k)]
    if bad:
        ctx.violation(dict(sig, kind="registry_not_restored", registry="+".join(sorted(bad))[:80]),
                      dict(detail, before={k: len(before[k]) if isinstance(before[k], list) else before[k] for k in bad},
                           after={k: len(after[k]) if isinstance(after.get(k), list) else after.get(k) for k in bad}))
        return False
    return True


def cleanup_registries(before):
    """After a leak was reported, restore torch's global state so that later cases start clean."""
    import torch.nn.modules.module as M

    for name in ("_global_forward_hooks", "_global_forward_pre_hooks"):
        d = getattr(M, name)
        keep = {k for k, _ in before.get(name, [])}
        for k in list(d.keys()):
            if k not in keep:
                del d[k]
    try:
        from torch.overrides import _pop_mode

        while len(torch.overrides._get_current_function_mode_stack()) > len(before["function_mode_stack"]):
            _pop_mode()
    except Exception:
        pass
    from optimum.quanto.library import ops as qops

    qops._ext_enabled = True


def pure_forward(ctx, model, x, sig, detail):
    """Outside a context: inference changes nothing and is repeatable bit for bit."""
    ctx.count("purity_checks")
    g0 = registries()
    s0 = fp.state_fp(model)
    xb = fp.tensor_fp(x)
    # every submodule must leave the tensors it is given untouched (a layer that scales its input in place corrupts
    # whatever else reads that tensor afterwards)
    held, dirty = {}, []

    def pre(mod, args):
        held[id(mod)] = [(a, fp.tensor_fp(a)) for a in args if isinstance(a, torch.Tensor)]

    def post(mod, args, out):
        for a, f0 in held.pop(id(mod), []):
            if fp.tensor_fp(a) != f0:
                dirty.append(type(mod).__name__)

    hs = []
    for m_ in model.modules():
        if not list(m_.children()):
            hs.append(m_.register_forward_pre_hook(pre))
            hs.append(m_.register_forward_hook(post))
    try:
        with torch.no_grad():
            o1 = lifecycle.out_fp(model(x))
    finally:
        for h in hs:
            h.remove()
    if dirty:
        ctx.violation(dict(sig, kind="module_modified_its_input", module=dirty[0]), detail)
    with torch.no_grad():
        s1 = fp.state_fp(model)
        o2 = lifecycle.out_fp(model(x))
    g1 = registries()
    if g1 != g0:
        ctx.violation(dict(sig, kind="inference_changed_global_state", what="+".join(k for k in g0 if g0[k] != g1.get(k))[:60]),
                      detail)
    if fp.tensor_fp(x) != xb:
        ctx.violation(dict(sig, kind="inference_modified_its_input"), detail)
    if s1 != s0:
        ctx.violation(dict(sig, kind="inference_changed_model_state"), dict(detail, changed=fp.diff(s0, s1)[:6]))
    if o1 != o2:
        ctx.violation(dict(sig, kind="repeated_inference_differs"), detail)


def module_outputs(model, x):
    """Fingerprint (class + bits) of what every submodule returns for input x."""
    outs = {}
    hs = [m.register_forward_hook(lambda mod, a, o, _n=n: outs.__setitem__(_n, lifecycle.out_fp(o))) for n, m in
          model.named_modules() if n]
    try:
        with torch.no_grad():
            outs["<model>"] = lifecycle.out_fp(model(x))
    finally:
        for h in hs:
            h.remove()
    return outs


def twin_equivalence(ctx, oq, model, rebuild, x, sig, detail):
    """A model that went through a (possibly aborted) calibration must behave exactly like a fresh model of the same
    architecture loaded with its state_dict: nothing but the state_dict may carry over (no hidden per-module state)."""
    try:
        twin = rebuild()
        twin.load_state_dict(model.state_dict())
        a, b = module_outputs(model, x), module_outputs(twin, x)
    except Exception as e:
        ctx.count("twin_equivalence_not_evaluated")
        ctx.see("twin_errors", f"{type(e).__name__}:{str(e)[:80]}")
        return
    ctx.count("twin_equivalence_checks")
    d = fp.diff(a, b)
    if d:
        ctx.violation(dict(sig, kind="behaviour_differs_from_model_with_same_state_dict"),
                      dict(detail, modules=d[:6], got=[a.get(k, "")[:40] for k in d[:3]], want=[b.get(k, "")[:40] for k in d[:3]]))


def library_purity(ctx, oq, r, wd, sig):
    """quantize / freeze / quantize_weight / quantize_activation never modify the float tensors they read."""
    from optimum.quanto.library import ops as qops

    for call in ("quantize_weight", "quantize_activation", "quantize+freeze", "disable_extensions"):
        ctx.count("library_purity_checks")
        g0 = registries()
        try:
            if call == "quantize_weight":
                qt = ["qint8", "qfloat8", "qint4", "qint2"][r.integers(4)]
                t = lifecycle.batch(r, (8, 16), wd)
                b = fp.plain_bytes(t)
                oq.quantize_weight(t, oq.qtypes[qt], int(r.choice([0, -1])))
                ok = fp.plain_bytes(t) == b
            elif call == "quantize_activation":
                qt = ["qint8", "qfloat8_e4m3fn", "qfloat8_e5m2"][r.integers(3)]
                # ordinary and out-of-range values, unit (never calibrated) and ordinary scales
                t = lifecycle.batch(r, (4, 8), wd, mag=float(r.choice([1.0, 30.0, 3000.0, 60000.0 if wd != torch.float16 else 20000.0])))
                sc = torch.tensor(float(r.choice([1.0, 1.0, 0.05, 7.0])), dtype=wd)
                b, bs = fp.plain_bytes(t), fp.plain_bytes(sc)
                oq.quantize_activation(t, oq.qtypes[qt], sc)
                ok = fp.plain_bytes(t) == b and fp.plain_bytes(sc) == bs
            elif call == "quantize+freeze":
                kind = ["mlp_small", "conv", "mlp_ln"][r.integers(3)]
                wq = ["qfloat8", "qint4", "qint2", "qint8"][r.integers(4)]
                if lifecycle.crash_hazard(kind, wd, wq, None):
                    wq = "qfloat8"
                model, shape = lifecycle.build(kind, wd)
                tied = None
                if r.random() < 0.4:
                    # a float parameter the caller still reads after quantize(): tied to a module that is not quantized
                    # (embedding <-> output projection), kept by an optimizer, an EMA copy ...
                    lin = next((m_ for m_ in model.modules() if isinstance(m_, nn.Linear)), None)
                    if lin is not None:
                        tied = nn.Embedding(lin.weight.shape[0], lin.weight.shape[1]).to(wd)
                        tied.weight = lin.weight
                        ctx.count("tied_parameters")

                def snap(params):
                    # the Parameter objects themselves are held (not aliases of their storage): re-pointing .data shows too
                    return {n: (p_, tuple(p_.shape), str(p_.dtype), fp.plain_bytes(p_.data)) for n, p_ in params}

                def same(s_):
                    return all(tuple(p_.shape) == shp and str(p_.dtype) == dt and fp.plain_bytes(p_.data) == b
                               for p_, shp, dt, b in s_.values())

                refs = snap(list(model.named_parameters()))
                oq.quantize(model, weights=oq.qtypes[wq], activations=oq.qint8 if r.random() < 0.5 else None)
                ok = same(refs)
                if tied is not None:
                    tied(torch.zeros(2, dtype=torch.long))  # the tied module must still work
                live = snap([(n, p_) for n, p_ in model.named_parameters() if type(p_.data) is torch.Tensor])
                oq.freeze(model)
                ok = ok and same(live) and same(refs)
            else:
                try:
                    with qops.disable_extensions():
                        if r.random() < 0.5:
                            raise Injected("inside disable_extensions")
                except Injected:
                    pass
                ok = qops._ext_enabled is True
                if not ok:
                    qops._ext_enabled = True
        except Exception as e:
            ctx.violation(dict(sig, kind="library_call_raises", call=call, exc=type(e).__name__), dict(msg=str(e)[:200]))
            continue
        if not ok:
            ctx.violation(dict(sig, kind="library_call_modified_its_operands" if call != "disable_extensions" else
                               "extensions_left_disabled", call=call), {})
        g1 = registries()
        if call == "quantize+freeze":
            g0.pop("rng_state"), g1.pop("rng_state")  # building the float model draws its initial weights
        if g1 != g0:
            ctx.violation(dict(sig, kind="library_call_changed_global_state", call=call,
                               what="+".join(k for k in g0 if g0[k] != g1.get(k))[:60]), {})


GLUE_OPS = ["div_", "idiv", "mul_", "imul", "neg_", "relu_", "copy_", "copy_float", "clamp_", "add_", "sub_scalar_", "zero_",
            "view_div_", "t_mul_", "detach_div_", "fill_", "div", "mul", "neg", "relu", "view", "transpose", "clone_div_",
            "index_copy_row", "setitem_row", "masked_fill_"]


class Glue(nn.Module):
    """User-level tensor code between quantized layers: the intermediate activations it touches (also in place) are the
    tensors quantized modules hand out, so whatever it does to them must never reach a module's own state."""

    def __init__(self, ops, c):
        super().__init__()
        self.a, self.b, self.c = nn.Linear(16, 16), nn.Linear(16, 16), nn.Linear(16, 8)
        self.ops, self.k = list(ops), c

    def forward(self, x):
        y, z = self.a(x), self.b(x)
        k = self.k
        for op in self.ops:
            if op == "div_":
                y.div_(k)
            elif op == "idiv":
                y /= k
            elif op == "mul_":
                y.mul_(k)
            elif op == "imul":
                y *= k
            elif op == "neg_":
                y.neg_()
            elif op == "relu_":
                torch.nn.functional.relu(y, inplace=True)
            elif op == "copy_":
                y.copy_(z)
            elif op == "copy_float":
                y.copy_(z.dequantize() if hasattr(z, "qtype") else z)
            elif op == "clamp_":
                y.clamp_(-1.0, 1.0)
            elif op == "add_":
                y.add_(z)
            elif op == "sub_scalar_":
                y.sub_(k)
            elif op == "zero_":
                z.zero_()
            elif op == "fill_":
                z.fill_(k)
            elif op == "view_div_":
                y.view(-1, 16).div_(k)
            elif op == "t_mul_":
                y.transpose(0, -1).mul_(k)
            elif op == "detach_div_":
                y.detach().div_(k)
            elif op == "clone_div_":
                y = y.clone()
                y.div_(k)
            elif op == "index_copy_row":
                y[0].copy_(z[0])
            elif op == "setitem_row":
                y[0] = z[0]
            elif op == "masked_fill_":
                y.masked_fill_(torch.zeros(y.shape, dtype=torch.bool), k)
            elif op == "div":
                y = y / k
            elif op == "mul":
                y = y * k
            elif op == "neg":
                y = -y
            elif op == "relu":
                y = torch.relu(y)
            elif op == "view":
                y = y.view(-1, 16)
            elif op == "transpose":
                y = y.transpose(0, -1).transpose(0, -1)
        return self.c(y) + (self.c(z) if not hasattr(y, "qtype") else 0)


def glue_models(ctx, oq, r, wd, aq, sig0, desc):
    """Calibrated (not streamlined) activation-quantized models whose forward manipulates quantized intermediates."""
    ops = [GLUE_OPS[int(r.integers(len(GLUE_OPS)))] for _ in range(int(r.integers(1, 4)))]
    k = float(r.choice([2.0, 4.0, 0.5, 3.0]))
    wq = ["qint8", "qfloat8", "qint4"][int(r.integers(3))]
    if wd == torch.bfloat16 and wq == "qint8":
        wq = "qfloat8"
    torch.manual_seed(int(r.integers(1 << 30)))
    # calibrated as a plain stack of layers (the glue is switched on afterwards, as when a checkpoint calibrated elsewhere
    # is loaded into the user's model): every module then holds its own, distinct scales
    m = Glue([], k).to(wd)
    oq.quantize(m, weights=oq.qtypes[wq], activations=oq.qtypes[aq])
    x = lifecycle.batch(r, (int(r.integers(2, 6)), 16), wd)
    try:
        with torch.no_grad(), oq.Calibration(streamline=False):
            m(x)
        m.ops = ops
        if r.random() < 0.5:
            oq.freeze(m)
    except Exception as e:
        # the glue code itself may be refused on quantized tensors (that is C05's business, not a side effect)
        ctx.count("glue_models_refused")
        ctx.see("glue_refusals", f"{'+'.join(ops)}:{type(e).__name__}", cap=200)
        return
    sig = dict(sig0, model="glue", op="+".join(sorted(set(ops))))
    sig.pop("shape", None)
    # the very first inference after calibration is the one compared with the calibrated state: a corruption that is
    # idempotent (a scale overwritten by the same value on every forward) would be invisible afterwards
    for j in range(2):
        xin = lifecycle.batch(r, (int(r.integers(2, 6)), 16), wd)
        if r.random() < 0.4:
            # an already quantized input (what the previous block of a larger model would hand over): it is the caller's
            # tensor, so neither its codes nor its scale may change
            qin = ["qint8", "qfloat8_e4m3fn", "qfloat8_e5m2"][int(r.integers(3))]
            qmax = 127.0 if qin == "qint8" else float(torch.finfo(oq.qtypes[qin].dtype).max)
            xin = oq.quantize_activation(xin, oq.qtypes[qin], (xin.abs().max().to(torch.float64) / qmax).clamp(min=1e-6).to(wd))
            ctx.count("quantized_model_inputs")
            sig = dict(sig, input="quantized")
        try:
            pure_forward(ctx, m, xin, sig, dict(desc=desc, ops=ops, k=k, weights=wq))
        except Exception as e:
            ctx.count("glue_models_refused")
            ctx.see("glue_refusals", f"{'+'.join(ops)}:{type(e).__name__}", cap=200)
            return
    ctx.count("glue_models")
    for op in ops:
        ctx.see("glue_ops", op)


def build_model(oq, r, wd, aq):
    kind = ["mlp_small", "conv", "mlp_ln", "linear", "attention"][r.integers(5)]
    wq = ["qint8", "qfloat8", "qint4"][r.integers(3)]
    if lifecycle.crash_hazard(kind, wd, wq, None):  # streamlining may switch activation quantization off
        wq = "qfloat8"
    def make():
        m, shp = lifecycle.build(kind, wd)
        b = Boom()
        m = nn.Sequential(*list(m.children()), b) if isinstance(m, nn.Sequential) else nn.Sequential(m, b)
        oq.quantize(m, weights=oq.qtypes[wq], activations=oq.qtypes[aq])
        return m, shp, b

    model, shape, boom = make()
    model._qv_rebuild = lambda: make()[0]
    return model, shape, boom, kind


def play(ctx, oq, model, shape, boom, r, wd, script, fault=None):
    """Run one history. Returns 'clean' | 'raised'. The registry oracle is evaluated by the caller."""
    outcome = "clean"
    # debug=True only prints a trace: every configuration of the context owes the same restoration
    dbg = bool(script.get("debug", 0))
    c1 = oq.Calibration(momentum=0.5, streamline=bool(script["streamline"]), debug=dbg)
    c2 = oq.Calibration(momentum=0.9, streamline=False, debug=dbg and script["streamline"] == 0)
    import contextlib
    import io as _io

    with contextlib.redirect_stdout(_io.StringIO()) if dbg else contextlib.nullcontext():
        return _play(ctx, model, shape, boom, r, wd, script, fault, c1, c2)


def _play(ctx, model, shape, boom, r, wd, script, fault, c1, c2):
    outcome = "clean"
    x = [lifecycle.batch(r, shape, wd) for _ in range(3)]
    if fault is not None:
        reach.set_failpoint(fault[0], fault[1], lambda: Injected(f"fault in {fault[0]}"))
    try:
        with torch.no_grad():
            shape_kind = script["shape"]
            if shape_kind == "sequential":
                with c1:
                    model(x[0])
                with c2:
                    model(x[1])
            elif shape_kind == "reuse":
                with c1:
                    model(x[0])
                with c1:
                    model(x[1])
            elif shape_kind == "nested":
                with c1:
                    model(x[0])
                    with c2:
                        model(x[1])
                    model(x[2])
            elif shape_kind == "reenter":
                with c1:
                    model(x[0])
                    with c1:
                        model(x[1])
                    model(x[2])
            elif shape_kind == "forward_raises":
                with c1:
                    model(x[0])
                    boom.armed = True
                    model(x[1])
            elif shape_kind == "nested_forward_raises":
                with c1:
                    with c2:
                        model(x[0])
                        boom.armed = True
                        model(x[1])
    except Injected:
        outcome = "raised"
    finally:
        boom.armed = False
        if fault is not None:
            reach.clear_failpoint(fault[0])
    return outcome


def run(ctx):
    import optimum.quanto as oq

    warnings.simplefilter("ignore")
    rng = ctx.rng
    n = (200 if ctx.tier == "quick" else 5000) // ctx.nshards
    shapes = ["sequential", "reuse", "nested", "reenter", "forward_raises", "nested_forward_raises"]
    for i in range(n):
        wd = DT[int(rng.integers(3))]
        aq = ["qint8", "qfloat8"][int(rng.integers(2))]
        script = dict(shape=shapes[i % len(shapes)], streamline=int(rng.integers(2)), debug=int(rng.integers(3) == 0))
        desc = dict(history=i, dtype=str(wd), activations=aq, **script)
        if not ctx.case(desc):
            continue
        r = ctx.crng
        ctx.count("histories")
        ctx.count("executions")
        if script["debug"]:
            ctx.count("histories_with_debug_contexts")
        sig0 = dict(shape=script["shape"])
        try:
            model, shape, boom, kind = build_model(oq, r, wd, aq)
        except Exception as e:
            ctx.violation(dict(sig0, kind="setup_raises", exc=type(e).__name__), dict(desc=desc, msg=str(e)[:200]))
            continue
        if "nested" in script["shape"] or script["shape"] == "reenter":
            ctx.count("nested_contexts")
        # ---- fault-free run (also measures how often each fault function is entered)
        before = registries()
        c0 = {f: reach.count(f) for f in FAULT_FUNCS}
        try:
            outcome = play(ctx, oq, model, shape, boom, r, wd, script)
        except Exception as e:
            import re

            ctx.violation(dict(sig0, kind="history_raises", exc=type(e).__name__,
                               msg=re.sub(r"[0-9]+", "N", str(e).splitlines()[0][:60]) if str(e) else ""),
                          dict(desc=desc, msg=str(e)[:300]))
            cleanup_registries(before)
            continue
        if outcome == "raised":
            ctx.count("forward_exception_exits")
        after = registries()
        if not cmp_registries(ctx, before, after, dict(sig0, exit="exception" if outcome == "raised" else "normal",
                                                       fault="none"), dict(desc=desc)):
            cleanup_registries(before)
        entered = {f: reach.count(f) - c0[f] for f in FAULT_FUNCS}
        # a module created and run afterwards is unaffected
        fresh = nn.Sequential(nn.Linear(8, 4)).to(wd)
        oq.quantize(fresh, weights=oq.qfloat8, activations=oq.qtypes[aq])
        s0 = fp.state_fp(fresh)
        with torch.no_grad():
            fresh(lifecycle.batch(r, (2, 8), wd))
        if fp.state_fp(fresh) != s0:
            ctx.violation(dict(sig0, kind="later_module_affected_by_finished_calibration"), dict(desc=desc))
        for _ in range(3):  # batch sizes vary: state must not depend on what is inferred
            pure_forward(ctx, model, lifecycle.batch(r, (int(r.integers(1, 10)),) + tuple(shape[1:]), wd), sig0,
                         dict(desc=desc, model="calibrated_unfrozen"))
        if not script["streamline"]:
            twin_equivalence(ctx, oq, model, model._qv_rebuild, lifecycle.batch(r, shape, wd),
                             dict(sig0, exit="exception" if outcome == "raised" else "normal", fault="none"), dict(desc=desc))
        # ---- fault enumeration: every (function, k) reached by the fault-free run
        for f, cnt in entered.items():
            for k in sorted(set([1, 2, cnt]) if ctx.tier == "quick" else set(range(1, min(cnt, 6) + 1)) | {cnt}):
                if k < 1 or k > cnt:
                    continue
                m2, shape2, boom2, _ = build_model(oq, r, wd, aq)
                before = registries()
                ctx.count("faults_injected")
                ctx.count("executions")
                try:
                    outcome = play(ctx, oq, m2, shape2, boom2, r, wd, script, fault=(f, k))
                except Exception as e:
                    ctx.violation(dict(sig0, kind="fault_surfaces_as_other_exception", function=f.split(":")[-1],
                                       exc=type(e).__name__), dict(desc=desc, k=k, msg=str(e)[:200]))
                    cleanup_registries(before)
                    continue
                if outcome == "raised":
                    ctx.count("faults_fired")
                    ctx.see("fault_points", f"{f.split(':')[-1]}#{k}", cap=2000)
                after = registries()
                if not cmp_registries(ctx, before, after, dict(sig0, exit="exception" if outcome == "raised" else "normal",
                                                               fault=f.split(":")[-1]), dict(desc=desc, k=k)):
                    cleanup_registries(before)
                ctx.nontrivial(script["shape"], f, k, str(wd), aq)
                pure_forward(ctx, m2, lifecycle.batch(r, shape2, wd), dict(sig0, after_fault=True),
                             dict(desc=desc, fault=f, k=k))
                if not script["streamline"]:
                    twin_equivalence(ctx, oq, m2, m2._qv_rebuild, lifecycle.batch(r, shape2, wd),
                                     dict(sig0, exit="exception" if outcome == "raised" else "normal",
                                          fault=f.split(":")[-1]), dict(desc=desc, k=k))
        # ---- never calibrated models (unit activation scales) on large inputs: saturation must not touch the input
        try:
            m4, shape4, _b4, _k4 = build_model(oq, r, wd, aq)
            if r.random() < 0.5:
                oq.freeze(m4)
            big = lifecycle.batch(r, shape4, wd, mag=float(r.choice([30.0, 1000.0, 20000.0])))
            ctx.count("uncalibrated_models")
            pure_forward(ctx, m4, big, dict(sig0, model="uncalibrated"), dict(desc=desc))
        except Exception as e:
            ctx.violation(dict(sig0, kind="uncalibrated_inference_raises", exc=type(e).__name__), dict(desc=desc, msg=str(e)[:200]))
        # ---- weights-only models (float activations), scalar heads and shared trunks included
        for _ in range(2):
            k2 = ["scalar_head", "two_heads", "mlp_small", "conv", "linear", "attention"][int(r.integers(6))]
            wq2 = ["qint8", "qfloat8", "qfloat8_e5m2", "qint4", "qint2"][int(r.integers(5))]
            if lifecycle.crash_hazard(k2, wd, wq2, None):
                wq2 = "qfloat8"
            try:
                m3, shape3 = lifecycle.build(k2, wd)
                oq.quantize(m3, weights=oq.qtypes[wq2])
                if r.random() < 0.5:
                    oq.freeze(m3)
                ctx.count("weights_only_models")
                pure_forward(ctx, m3, lifecycle.batch(r, (int(r.integers(1, 10)),) + tuple(shape3[1:]), wd),
                             dict(sig0, model="weights_only"), dict(desc=desc, model=k2, weights=wq2))
            except Exception as e:
                ctx.violation(dict(sig0, kind="weights_only_inference_raises", exc=type(e).__name__),
                              dict(desc=desc, model=k2, weights=wq2, msg=str(e)[:200]))
        # ---- models whose forward manipulates the quantized activations handed out by quantized modules
        for _ in range(3):
            glue_models(ctx, oq, r, wd, aq, sig0, desc)
        # ---- frozen / unfrozen inference purity and library purity
        oq.freeze(model)
        for _ in range(3):
            pure_forward(ctx, model, lifecycle.batch(r, (int(r.integers(1, 10)),) + tuple(shape[1:]), wd), sig0,
                         dict(desc=desc, model="frozen"))
        library_purity(ctx, oq, r, wd, sig0)
        if script["shape"] in ("forward_raises", "nested_forward_raises", "nested", "reenter"):
            ctx.nontrivial(script["shape"], "nofault", i)
        if i % 17 == 0:
            ctx.sample(dict(desc, entered={k.split(":")[-1]: v for k, v in entered.items() if v}))
