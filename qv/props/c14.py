"""C14 — configurations are either rejected with ValueError or fully honoured (exhaustive small cross product)."""

import itertools
import warnings

import numpy as np
import torch
import torch.nn as nn

from qv import fp, gen, num, oracles

F64 = torch.float64

META = dict(
    level="exploration",
    shards={"quick": 12, "thorough": 16},
    watchdog_s={"quick": 1500, "thorough": 5400},
    evaluations_counter="cases",
    min={"calls:quantize_weight": 5000, "calls:SymmetricQuantizer": 2000, "calls:quantize_activation": 300,
         "calls:AffineQuantizer": 1000, "accepted_and_judged": 800, "rejected_with_ValueError": 3000,
         "qlinear_group_sizes": 2048, "qconv_group_sizes": 100, "module_forwards": 300},
    anchors=["tensor/qweight.py:quantize_weight",
             "tensor/qactivation.py:quantize_activation",
             "tensor/quantizers/symmetric.py:SymmetricQuantizer.forward",
             "tensor/quantizers/affine.py:AffineQuantizer.forward",
             "tensor/qbits/group.py:group",
             "nn/qmodule.py:QModuleMixin.__init__",
             "nn/qmodule.py:QModuleMixin._set_weight_group_size"],
    rule="case = one call of the full cross product qtype(6) x axis {None,-2..2} x group_size {None, 1..per-axis count+2, "
         "2*numel} x optimizer {default, Absmax, Max} x 13 shapes of rank 1-4 for quantize_weight; qtype x axis x scale "
         "shape {scalar, (1,), ones, matching per-axis, transposed per-axis, wrong length, rank-deficient} for "
         "SymmetricQuantizer / quantize_activation; qtype x axis x group size for AffineQuantizer; every in_features in "
         "1..2048 (quick) / 1..8192 (thorough) for QLinear and Conv2d kernel 1-5 x channels x groups for the automatic "
         "group size. Outcome must be ValueError or a result passing the C01/C02/C03/C06 oracles for exactly the request; "
         "listed unsupported configurations must raise ValueError and plainly valid ones must be honoured. Non-trivial "
         "when the configuration is accepted and not the default (axis 0, no group); distinct by configuration tuple",
    exhaustive_note="the small-shape cross product and the in_features range are enumerated completely (sharded)",
    assumptions=["an axis given by its positive index (ndim-1) or by -ndim may be honoured as the last/first axis or rejected",
                 "1-D tensors quantized per-axis may be rejected", "a size-1 axis degrading to per-tensor (8-bit weights) is "
                 "the one documented normalisation"],
)

QTYPES = ["qint2", "qint4", "qint8", "qfloat8", "qfloat8_e4m3fn", "qfloat8_e5m2"]
STORAGE = {"qint8": torch.int8, "qfloat8": torch.float8_e4m3fn, "qfloat8_e4m3fn": torch.float8_e4m3fn,
           "qfloat8_e5m2": torch.float8_e5m2}
SHAPES = [(1,), (2,), (6,), (1, 4), (4, 1), (2, 3), (4, 6), (6, 4), (3, 3), (2, 1, 3), (2, 3, 4), (2, 2, 2, 2), (1, 2, 3, 4)]
MORE_SHAPES = [(3, 5), (5, 3), (4, 4), (8, 2), (2, 8), (1, 1, 4), (2, 3, 1), (2, 2, 3), (3, 1, 2, 2), (2, 1, 2, 3), (7,), (1, 1)]
AXES = [None, -2, -1, 0, 1, 2]
DT = [torch.float32, torch.float16, torch.bfloat16]


def tensor_for(shape, wd, seed):
    g = np.random.default_rng(seed)
    x = g.standard_normal(shape)
    if len(shape) >= 1:
        x = x * np.exp(g.uniform(-2, 2, size=(shape[0],) + (1,) * (len(shape) - 1)))
    t = torch.from_numpy(x).to(wd)
    # two configurations in five get a source that is not contiguous (same values): a transposed view, a strided slice, a
    # channels_last weight - an accepted configuration must be honoured whatever the memory layout
    lay = seed % 5
    if lay == 1 and t.ndim >= 2:
        t = t.transpose(0, -1).contiguous().transpose(0, -1)
    elif lay == 3 and t.ndim >= 1 and t.numel():
        if t.ndim == 4:
            t = t.contiguous(memory_format=torch.channels_last)
        else:
            big = torch.zeros(tuple(t.shape[:-1]) + (2 * t.shape[-1],), dtype=wd)
            big[..., ::2] = t
            t = big[..., ::2]
    return t


def outcome(ctx, fn, sig, desc):
    """Run a call; returns ('ValueError', None) | ('ok', result) | ('bad', None) after reporting."""
    try:
        return "ok", fn()
    except ValueError:
        ctx.count("rejected_with_ValueError")
        return "ValueError", None
    except Exception as e:
        import re

        ctx.violation(dict(sig, kind="rejected_with_other_exception", exc=type(e).__name__,
                           msg=re.sub(r"[0-9]+", "N", str(e).splitlines()[0][:50]) if str(e) else ""),
                      dict(desc=desc, msg=str(e)[:200]))
        return "bad", None


def judge_8bit(ctx, x, qtn, want_axis, scale, q, sig, desc):
    ctx.count("accepted_and_judged")
    fails = []
    if type(fp.unwrap_param(q)).__name__ != "QBytesTensor":
        fails.append({"kind": "result_class", "got": type(q).__name__})
    else:
        fails += [dict(f, kind="meta:" + f["kind"]) for f in oracles.check_meta(q, expect_qtype=qtn, expect_axis=want_axis)]
        if not fails:
            sc = oracles.plain(fp.inner(q)[0]["_scale"]) if scale is None else scale
            S = sc.to(F64)
            if bool((S > 0).all()) and bool(torch.isfinite(S).all()):
                fails += [dict(f, kind="c01:" + f["kind"]) for f in oracles.check_symmetric(x, STORAGE[qtn], sc, q)]
    for f in fails:
        ctx.violation(dict(sig, kind="accepted_but_not_honoured", what=f["kind"]), dict(desc=desc, fail=f))


def judge_lowbit(ctx, x, qtn, axis, gs, q, sig, desc):
    ctx.count("accepted_and_judged")
    bits = 2 if qtn == "qint2" else 4
    fails = []
    if type(fp.unwrap_param(q)).__name__ != "QBitsTensor":
        fails.append({"kind": "result_class", "got": type(q).__name__})
    else:
        fails += [dict(f, kind="meta:" + f["kind"]) for f in oracles.check_meta(q, expect_qtype=qtn, expect_axis=axis,
                                                                                expect_group=gs)]
        if not fails:
            ax = axis
            if x.ndim == 1 and gs is None and fp.inner(q)[0]["_scale"].numel() == 1:
                ax = None
            fails += [dict(f, kind="c02:" + f["kind"]) for f in oracles.check_affine(x, bits, ax, gs, q)]
    for f in fails:
        ctx.violation(dict(sig, kind="accepted_but_not_honoured", what=f["kind"]), dict(desc=desc, fail=f))


def expect_qw(shape, qtn, axis, gs, optname):
    nd = len(shape)
    low = qtn in ("qint2", "qint4")
    if axis not in (0, -1):
        if axis is not None and (axis == nd - 1 or axis == -nd) and nd >= 1:
            return "either"
        return "must_raise"
    if optname in ("Bare", "PerTensor", "NotAnOptimizer"):
        return "must_raise"  # neither a SymmetricOptimizer nor an AffineOptimizer
    if low:
        if optname == "Absmax":
            return "must_raise"
        per = int(np.prod(shape)) // shape[0 if axis == 0 else -1]
        if gs is not None and (gs > per or per % gs != 0):
            return "must_raise"
        return "must_accept"
    if optname == "Max":
        return "must_raise"
    if gs is not None:
        return "must_raise"
    if nd == 1 and shape[0] != 1:
        return "either"
    return "must_accept"


def part_quantize_weight(ctx, oq, k0):
    k = k0
    class PerTensor(oq.Optimizer):
        """Derives from the public base class directly: belongs to neither family quantize_weight accepts."""

        def __call__(self, base, bits, axis, group_size=None):
            s = base.abs().max() / (2 ** (bits - 1) - 1)
            return s if bits == 8 else (s, torch.zeros((), dtype=torch.int8))

    NEITHER = ("Bare", "PerTensor", "NotAnOptimizer")
    opts = {"default": None, "Absmax": oq.AbsmaxOptimizer(), "Max": oq.MaxOptimizer(), "Bare": oq.Optimizer(), "PerTensor": PerTensor(),
            "NotAnOptimizer": "absmax"}
    for shape in SHAPES:
        numel = int(np.prod(shape))
        per_max = max(numel // shape[0], numel // shape[-1])
        gss = [None] + list(range(1, per_max + 3)) + [2 * numel]
        for qtn, axis, gs, optname in itertools.product(QTYPES, AXES, gss, opts):
            if optname in NEITHER and gs not in (None, 1, 2):
                continue
            k += 1
            if not ctx.mine(k):
                continue
            wd = DT[k % 3]
            desc = dict(api="quantize_weight", shape=list(shape), qtype=qtn, axis=axis, group_size=gs, optimizer=optname,
                        dtype=str(wd))
            if not ctx.case(desc):
                continue
            ctx.count("calls:quantize_weight")
            x = tensor_for(shape, wd, k)
            xb = fp.plain_bytes(x)
            sig = dict(api="quantize_weight", family="lowbit" if qtn in ("qint2", "qint4") else "8bit")
            exp = expect_qw(shape, qtn, axis, gs, optname)
            st, q = outcome(ctx, lambda: oq.quantize_weight(x, oq.qtypes[qtn], axis, gs, opts[optname]), sig, desc)
            if fp.plain_bytes(x) != xb:
                ctx.violation(dict(sig, kind="source_modified"), dict(desc=desc))
            if st == "ValueError" and exp == "must_accept":
                ctx.violation(dict(sig, kind="valid_configuration_rejected"), dict(desc=desc))
            if st == "ok":
                if exp == "must_raise":
                    why = "axis" if axis not in (0, -1) else ("optimizer_family" if optname in ("Bare", "PerTensor", "NotAnOptimizer") or optname in ("Absmax", "Max") and (
                        (optname == "Absmax") == (qtn in ("qint2", "qint4"))) else "group_size")
                    ctx.violation(dict(sig, kind="unsupported_configuration_accepted", why=why), dict(desc=desc))
                    continue
                nd = len(shape)
                norm_axis = -1 if (axis is not None and axis == nd - 1 and nd > 1) else (0 if axis == -nd else axis)
                if qtn in ("qint2", "qint4"):
                    judge_lowbit(ctx, x, qtn, norm_axis if nd > 1 else axis, gs, q, sig, desc)
                else:
                    want_axis = None if shape[0 if norm_axis == 0 else -1] == 1 else norm_axis
                    judge_8bit(ctx, x, qtn, want_axis, None, q, sig, desc)
                if not (axis == 0 and gs is None):
                    ctx.nontrivial("qw", shape, qtn, axis, gs, optname)
            if k % 997 == 0:
                ctx.sample(dict(desc, outcome=st, expected=exp))
    return k


def scale_for(kind, shape, axis, wd, x):
    nd = len(shape)
    amax = float(x.abs().max()) / 100 + 1e-3
    if kind == "scalar":
        return torch.tensor(amax, dtype=wd)
    if kind == "one":
        return torch.tensor([amax], dtype=wd)
    if kind == "ones_nd":
        return torch.full([1] * nd, amax, dtype=wd)
    if axis is None or nd == 0:
        ax = 0
    else:
        ax = axis if axis >= 0 else nd + axis
        if not (0 <= ax < nd):
            ax = 0
    n = shape[ax]
    vals = torch.tensor(np.linspace(1.0, 2.0, n) * amax, dtype=F64).to(wd)
    if kind == "match":
        s = [1] * nd
        s[ax] = n
        return vals.reshape(s)
    if kind == "transposed":
        other = nd - 1 if ax == 0 else 0
        s = [1] * nd
        s[other] = n
        return vals.reshape(s)
    if kind == "wrong_len":
        s = [1] * nd
        s[ax] = n + 1
        return torch.tensor(np.linspace(1.0, 2.0, n + 1) * amax, dtype=F64).to(wd).reshape(s)
    if kind == "rank_deficient":
        return vals
    raise KeyError(kind)


def part_symmetric(ctx, oq, k0):
    k = k0
    kinds = ["scalar", "one", "ones_nd", "match", "transposed", "wrong_len", "rank_deficient"]
    for shape in SHAPES:
        nd = len(shape)
        for qtn, axis, skind in itertools.product(QTYPES, AXES, kinds):
            k += 1
            if not ctx.mine(k):
                continue
            wd = DT[k % 3]
            x = tensor_for(shape, wd, k)
            scale = scale_for(skind, shape, axis, wd, x)
            low = qtn in ("qint2", "qint4")
            if low:
                continue  # the property covers the symmetric quantizer for 8-bit qtypes only
            desc = dict(api="SymmetricQuantizer", shape=list(shape), qtype=qtn, axis=axis, scale=skind,
                        scale_shape=list(scale.shape), dtype=str(wd))
            if not ctx.case(desc):
                continue
            ctx.count("calls:SymmetricQuantizer")
            sig = dict(api="SymmetricQuantizer", family="lowbit" if low else "8bit")
            st, q = outcome(ctx, lambda: oq.SymmetricQuantizer.apply(x, oq.qtypes[qtn], axis, scale), sig, desc)
            first_last = axis is not None and (axis in (0, -1) or axis == nd - 1 or axis == -nd)
            ax = None if axis is None else (0 if axis in (0, -nd) else -1)
            if nd == 1 and axis is not None:
                ax = 0
            n_ax = None if ax is None else shape[0 if ax == 0 else -1]
            proper = None
            if axis is not None and first_last and nd >= 2 and n_ax > 1:
                want = [1] * nd
                want[0 if ax == 0 else -1] = n_ax
                proper = list(scale.shape) == want
            if st == "ok":
                if low:
                    ctx.violation(dict(sig, kind="unsupported_configuration_accepted", why="qtype_family"), dict(desc=desc))
                    continue
                if axis is None:
                    if scale.numel() != 1:
                        ctx.violation(dict(sig, kind="unsupported_configuration_accepted", why="non_scalar_scale"),
                                      dict(desc=desc))
                        continue
                    judge_8bit(ctx, x, qtn, None, scale, q, sig, desc)
                else:
                    if not first_last:
                        ctx.violation(dict(sig, kind="unsupported_configuration_accepted", why="axis"), dict(desc=desc))
                        continue
                    if proper is False:
                        ctx.violation(dict(sig, kind="unsupported_configuration_accepted", why="scale_does_not_match_axis",
                                           scale_kind=skind, square=len(set(shape)) == 1), dict(desc=desc))
                        continue
                    judge_8bit(ctx, x, qtn, ax, scale, q, sig, desc)
                    ctx.nontrivial("sq", shape, qtn, axis, skind)
            elif st == "ValueError":
                documented = axis is None or axis in (0, -1) or axis == nd - 1
                if not low and documented and ((axis is None and skind == "scalar") or (proper is True)):
                    ctx.violation(dict(sig, kind="valid_configuration_rejected"), dict(desc=desc))
            # quantize_activation: always per-tensor
            if axis is None:
                ctx.count("calls:quantize_activation")
                desc2 = dict(desc, api="quantize_activation")
                sig2 = dict(api="quantize_activation", family="lowbit" if low else "8bit")
                st, q = outcome(ctx, lambda: oq.quantize_activation(x, oq.qtypes[qtn], scale), sig2, desc2)
                if st == "ok":
                    if low:
                        ctx.violation(dict(sig2, kind="unsupported_configuration_accepted", why="qtype_family"), dict(desc=desc2))
                    elif scale.numel() != 1:
                        ctx.violation(dict(sig2, kind="unsupported_configuration_accepted", why="non_scalar_scale"),
                                      dict(desc=desc2))
                    else:
                        judge_8bit(ctx, x, qtn, None, scale, q, sig2, desc2)
                elif st == "ValueError" and not low and skind == "scalar":
                    ctx.violation(dict(sig2, kind="valid_configuration_rejected"), dict(desc=desc2))
    return k


def part_affine(ctx, oq, k0):
    k = k0
    mo = oq.MaxOptimizer()
    for shape in SHAPES:
        numel = int(np.prod(shape))
        for qtn, axis in itertools.product(QTYPES, AXES):
            per = None
            if axis in (0, -1):
                per = numel // shape[0 if axis == 0 else -1]
            for gs in [None] + list(range(1, (per or 2) + 2)):
                k += 1
                if not ctx.mine(k):
                    continue
                wd = DT[k % 3]
                x = tensor_for(shape, wd, k)
                desc = dict(api="AffineQuantizer", shape=list(shape), qtype=qtn, axis=axis, group_size=gs, dtype=str(wd))
                if not ctx.case(desc):
                    continue
                ctx.count("calls:AffineQuantizer")
                low = qtn in ("qint2", "qint4")
                sig = dict(api="AffineQuantizer", family="lowbit" if low else "8bit")
                valid_cfg = axis in (0, -1) and (gs is None or (gs <= per and per % gs == 0))
                # scale / zero-point of a valid twin configuration (the quantizer itself is under test)
                try:
                    s, z = mo(x, 4 if qtn != "qint2" else 2, axis if axis in (0, -1) else 0, gs if valid_cfg else None)
                except Exception:
                    s, z = torch.tensor(0.1, dtype=wd), torch.tensor(0, dtype=torch.int8)
                st, q = outcome(ctx, lambda: oq.AffineQuantizer.apply(x, oq.qtypes[qtn], axis, gs, s, z), sig, desc)
                if st == "ok":
                    if not low:
                        ctx.violation(dict(sig, kind="unsupported_configuration_accepted", why="qtype_family"), dict(desc=desc))
                    elif axis not in (0, -1):
                        ctx.violation(dict(sig, kind="unsupported_configuration_accepted", why="axis"), dict(desc=desc))
                    elif not valid_cfg:
                        ctx.violation(dict(sig, kind="unsupported_configuration_accepted", why="group_size"), dict(desc=desc))
                    else:
                        judge_lowbit(ctx, x, qtn, axis, gs, q, sig, desc)
                        ctx.nontrivial("aq", shape, qtn, axis, gs)
                elif st == "ValueError" and low and valid_cfg:
                    ctx.violation(dict(sig, kind="valid_configuration_rejected"), dict(desc=desc))
    return k


def part_modules(ctx, oq, k0):
    """Automatic group size: divisibility for every in_features; the module runs and matches its float twin."""
    k = k0
    top = 2048 if ctx.tier == "quick" else 8192
    for in_f in range(1, top + 1):
        k += 1
        if not ctx.mine(k):
            continue
        qtn = "qint4" if in_f % 2 else "qint2"
        wd = DT[in_f % 3]
        desc = dict(api="QLinear", in_features=in_f, qtype=qtn, dtype=str(wd))
        if not ctx.case(desc):
            continue
        sig = dict(api="QLinear")
        ctx.count("qlinear_group_sizes")
        st, m = outcome(ctx, lambda: oq.QLinear(in_f, 3, bias=True, dtype=wd, weights=oq.qtypes[qtn]), sig, desc)
        if st != "ok":
            if st == "ValueError":
                ctx.violation(dict(sig, kind="shape_cannot_be_quantized"), dict(desc=desc))
            continue
        gs = m.weight_group_size
        if gs is not None and (in_f % gs != 0 or gs > in_f):
            ctx.violation(dict(sig, kind="automatic_group_size_not_a_divisor"), dict(desc=desc, group_size=gs))
            continue
        ctx.see("group_sizes_chosen", str(gs))
        if in_f <= 512 or in_f % 97 == 0:
            run_module(ctx, oq, m, torch.from_numpy(np.random.default_rng(in_f).standard_normal((2, in_f))).to(wd), sig, desc,
                       wd, in_f)
    for ks, cin, groups in itertools.product(range(1, 6), (1, 2, 3, 4, 6, 8, 16, 32, 48, 64), (1, 2, 4)):
        if cin % groups:
            continue
        k += 1
        if not ctx.mine(k):
            continue
        wd = DT[k % 3]
        qtn = ["qint4", "qint2"][k % 2]
        desc = dict(api="QConv2d", kernel=ks, in_channels=cin, groups=groups, qtype=qtn, dtype=str(wd))
        if not ctx.case(desc):
            continue
        sig = dict(api="QConv2d")
        ctx.count("qconv_group_sizes")
        st, m = outcome(ctx, lambda: oq.QConv2d(cin, 2 * groups, ks, groups=groups, padding=ks // 2, dtype=wd,
                                                weights=oq.qtypes[qtn]), sig, desc)
        if st != "ok":
            if st == "ValueError":
                ctx.violation(dict(sig, kind="shape_cannot_be_quantized"), dict(desc=desc))
            continue
        per = cin // groups * ks * ks
        gs = m.weight_group_size
        if gs is not None and (per % gs != 0 or gs > per):
            ctx.violation(dict(sig, kind="automatic_group_size_not_a_divisor"), dict(desc=desc, group_size=gs, per_output=per))
            continue
        run_module(ctx, oq, m, torch.from_numpy(np.random.default_rng(k).standard_normal((1, cin, 5, 5))).to(wd), sig, desc, wd,
                   per)
    return k


def run_module(ctx, oq, m, x, sig, desc, wd, K):
    try:
        with torch.no_grad():
            out = m(x)
            qw = m.qweight
            W64 = oracles.plain(qw.dequantize()).to(F64)
    except Exception as e:
        import re

        ctx.violation(dict(sig, kind="module_does_not_run", exc=type(e).__name__,
                           msg=re.sub(r"[0-9]+", "N", str(e).splitlines()[0][:50]) if str(e) else ""),
                      dict(desc=desc, msg=str(e)[:200]))
        return
    ctx.count("module_forwards")
    for f in oracles.check_meta(qw, expect_qtype=m.weight_qtype.name, expect_axis=0, expect_group=m.weight_group_size):
        ctx.violation(dict(sig, kind="accepted_but_not_honoured", what="meta:" + f["kind"]), dict(desc=desc, fail=f))
    X = x.to(F64)
    b = m.bias.detach().to(F64) if m.bias is not None else None
    if isinstance(m, nn.Conv2d):
        hp = dict(stride=m.stride, padding=m.padding, dilation=m.dilation, groups=m.groups)
        ref = torch.nn.functional.conv2d(X, W64, b, **hp)
        absdot = torch.nn.functional.conv2d(X.abs(), W64.abs(), None, **hp)
        babs = b.abs().reshape(1, -1, 1, 1) if b is not None else 0.0
    else:
        ref = torch.nn.functional.linear(X, W64, b)
        absdot = torch.nn.functional.linear(X.abs(), W64.abs())
        babs = b.abs() if b is not None else 0.0
    tol = num.dot_bound(ref, absdot, babs, K, wd) + 2 * num.eps(wd) * absdot
    got = oracles.plain(out).to(F64)
    if tuple(got.shape) != tuple(ref.shape) or not bool(((got - ref).abs() <= tol).all()):
        ctx.violation(dict(sig, kind="module_output_differs_from_float_twin"), dict(desc=desc))


def run(ctx):
    import optimum.quanto as oq

    warnings.simplefilter("ignore")
    if ctx.tier == "thorough":
        for sh in MORE_SHAPES:
            if sh not in SHAPES:
                SHAPES.append(sh)
        for a in (-3, 3, -4):
            if a not in AXES:
                AXES.append(a)
    k = part_quantize_weight(ctx, oq, 0)
    k = part_symmetric(ctx, oq, k)
    k = part_affine(ctx, oq, k)
    part_modules(ctx, oq, k)
