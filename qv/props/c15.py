"""C15 — AWQ layouts are bijective, match the reference, and denote the same weights (runs under python -O)."""

import os
import sys
import warnings

import numpy as np
import torch

from qv import fp, num, oracles, runner

F64 = torch.float64

META = dict(
    level="exploration",
    pyflags=["-O"],  # the AWQ code asserts device.type == "cuda": with asserts compiled out the same index arithmetic runs on CPU
    shards={"quick": 8, "thorough": 16},
    watchdog_s={"quick": 1500, "thorough": 5400},
    evaluations_counter="cases",
    min={"v2_shapes": 100, "v1_shapes": 100, "permutation_slots_recovered": 100_000, "equivalence_weights": 100, "synthetic_triples": 20,
         "conversions_back": 100, "reference_identity_v2": 100, "noncontiguous_code_matrices": 200, "rebuilt_wrappers_checked": 300,
         "equivalence_weights_from_noncontiguous_codes": 20},
    anchors=["tensor/qbits/awq/packed.py:pack_v2",
             "tensor/qbits/awq/packed.py:unpack_v2",
             "tensor/qbits/awq/packed.py:pack",
             "tensor/qbits/awq/packed.py:unpack",
             "tensor/qbits/awq/qbits.py:AWQBitsTensor.__init__",
             "tensor/qbits/awq/qbits.py:AWQBitsTensor.qbits_tensor",
             "tensor/qbits/awq/qbits.py:AWQBitsDequantizer.forward",
             "tensor/qbits/awq/packed.py:reverse_awq_order"],
    rule="case = one admissible shape per packing (v2: rows multiple of 4 x columns multiple of 64; v1 with and without "
         "reorder: columns multiple of 8), decided completely by position-tagged inputs (digit p of the base-16 position "
         "index in pass p) that recover which input position every output nibble carries: the map must be a bijection, "
         "unpack its inverse, and value independence is probed with random, all-15, high-bit-heavy and per-session "
         "interleaved sequences of packings; v2 payload byte-identical to external/awq pack_intweight; plus float16 "
         "group-128 int4 weights (degenerate rows included) whose AWQ representation must dequantize like the standard "
         "one and convert back to the same codes/scales/zero-points. Non-trivial when the shape has >1 row block and >1 "
         "column block; distinct by (packing, reorder, rows, columns)",
    exhaustive_note="every (rows, columns) shape in the bound is enumerated; per shape the position permutation is "
                    "recovered completely (all rows*columns nibble slots)",
    assumptions=["reshape/permute/shift/or behave identically on CPU and CUDA tensors (the code is run on CPU tensors "
                 "under python -O)", "selection of the AWQ class and device moves need a CUDA device and are not executed",
                 "agreement of v1 with external/awq pack_awq is recorded but not part of the verdict"],
)


def nibbles_of(packed):
    """All 4-bit fields of a packed tensor in little-endian slot order (layout independent)."""
    b = oracles.plain(packed).contiguous().reshape(-1).view(torch.uint8)
    return torch.stack([b & 0xF, b >> 4], dim=1).reshape(-1)


def recover_permutation(pack_fn, N, K):
    """slot -> input position, from ceil(log16(N*K)) position-tagged packings."""
    n = N * K
    pos = torch.arange(n, dtype=torch.int64)
    digits = []
    p, d = 1, 0
    while p < n:
        p *= 16
        d += 1
    d = max(d, 1)
    slot_pos = None
    for j in range(d):
        t = ((pos >> (4 * j)) & 15).to(torch.uint8).reshape(N, K)
        nib = nibbles_of(pack_fn(t)).to(torch.int64)
        slot_pos = nib << (4 * j) if slot_pos is None else slot_pos | (nib << (4 * j))
    return slot_pos


def fillings(rng, N, K):
    yield "random", torch.from_numpy(rng.integers(0, 16, size=(N, K), dtype=np.uint8))
    yield "all15", torch.full((N, K), 15, dtype=torch.uint8)
    yield "highbit", torch.from_numpy(rng.choice(np.array([8, 15, 12, 0], dtype=np.uint8), size=(N, K)))
    yield "ramp", (torch.arange(N * K) % 16).to(torch.uint8).reshape(N, K)


def check_packing(ctx, oq, AWQPackedTensor, AWQPacking, rng, N, K, packing, reorder, ref):
    pk = AWQPacking.V1 if packing == "v1" else AWQPacking.V2
    sig0 = dict(packing=packing, reorder=reorder)
    desc = dict(packing=packing, reorder=reorder, rows=N, cols=K)

    def pack_fn(t):
        P = AWQPackedTensor.pack(t, packing=pk, reorder=reorder)
        return fp.inner(P)[0]["_data"]

    try:
        slot_pos = recover_permutation(pack_fn, N, K)
    except Exception as e:
        ctx.violation(dict(sig0, kind="pack_raises", exc=type(e).__name__), dict(desc=desc, msg=str(e)[:200]))
        return
    n = N * K
    ctx.count("permutation_slots_recovered", int(slot_pos.numel()))
    if slot_pos.numel() != n or not torch.equal(torch.sort(slot_pos).values, torch.arange(n)):
        ctx.violation(dict(sig0, kind="packing_not_a_bijection"),
                      dict(desc=desc, slots=int(slot_pos.numel()), distinct=int(torch.unique(slot_pos).numel())))
        return
    # the code matrix may be held in any integer dtype (v1 unpack() itself returns int8: repacking its result is a use)
    code_dtype = [torch.uint8, torch.uint8, torch.int8, torch.int16, torch.int32, torch.int64][int(rng.integers(6))]
    ctx.see("code_dtypes", str(code_dtype))
    for name, t8 in fillings(rng, N, K):
        t = t8.to(code_dtype)
        # the code matrix may be a view: transposed storage (what .t() of a column-major buffer gives), or a window of a
        # wider / taller buffer
        lay = ["contiguous", "contiguous", "transposed", "col_window", "row_stride", "col_stride"][int(rng.integers(6))]
        if lay == "transposed":
            t = t.t().contiguous().t()
        elif lay == "col_window":
            big = torch.full((N, K + 8), 5, dtype=code_dtype)
            big[:, 3:3 + K] = t
            t = big[:, 3:3 + K]
        elif lay == "row_stride":
            big = torch.full((2 * N, K), 9, dtype=code_dtype)
            big[::2] = t
            t = big[::2]
        elif lay == "col_stride":
            big = torch.full((N, 2 * K), 3, dtype=code_dtype)
            big[:, ::2] = t
            t = big[:, ::2]
        if lay != "contiguous":
            assert not t.is_contiguous() and torch.equal(t.to(torch.uint8), t8)
            ctx.count("noncontiguous_code_matrices")
        ctx.see("code_layouts", lay)
        tb = fp.plain_bytes(t)
        try:
            P = AWQPackedTensor.pack(t, packing=pk, reorder=reorder)
            data = fp.inner(P)[0]["_data"]
            u = P.unpack()
        except Exception as e:
            ctx.violation(dict(sig0, kind="pack_or_unpack_raises", exc=type(e).__name__), dict(desc=desc, msg=str(e)[:200]))
            return
        if fp.plain_bytes(t) != tb:
            ctx.violation(dict(sig0, kind="pack_modifies_source"), dict(desc=desc))
        # value independence: the payload is the recovered data movement applied to these values
        if not torch.equal(nibbles_of(data).to(torch.int64), t.reshape(-1)[slot_pos].to(torch.int64)):
            ctx.violation(dict(sig0, kind="packing_depends_on_values_or_history", filling=name), dict(desc=desc))
        u = oracles.plain(u)
        if tuple(u.shape) != (N, K) or not torch.equal(u.to(torch.int64), t.to(torch.int64)):
            ctx.violation(dict(sig0, kind="unpack_not_inverse", filling=name), dict(desc=desc, shape=list(u.shape)))
        if tuple(P.shape) != (N, K):
            ctx.violation(dict(sig0, kind="packed_reports_wrong_shape"), dict(desc=desc, shape=list(P.shape)))
        # the wrapper is rebuilt when the tensor is detached (explicitly, or by wrapping it in a Parameter): what it denotes
        # must survive
        for how, mk in (("detach", lambda: P.detach()), ("parameter", lambda: torch.nn.Parameter(P, requires_grad=False)),
                        ("detach_twice", lambda: P.detach().detach())):
            try:
                P2 = mk()
                u2 = oracles.plain(fp.unwrap_param(P2).unpack())
                d2 = fp.inner(fp.unwrap_param(P2))[0]["_data"]
            except Exception as e:
                ctx.violation(dict(sig0, kind="rebuilt_wrapper_raises", how=how, exc=type(e).__name__), dict(desc=desc, msg=str(e)[:200]))
                continue
            ctx.count("rebuilt_wrappers_checked")
            if tuple(u2.shape) != (N, K) or not torch.equal(u2.to(torch.int64), t.to(torch.int64)) or not torch.equal(d2, data):
                ctx.violation(dict(sig0, kind="rebuilt_wrapper_denotes_other_values", how=how, filling=name), dict(desc=desc))
        want_dtype = torch.int32 if packing == "v1" else torch.int16
        if data.dtype != want_dtype or data.numel() * data.element_size() * 2 != n:
            ctx.violation(dict(sig0, kind="payload_not_dense"), dict(desc=desc, dtype=str(data.dtype), numel=int(data.numel())))
        # reference identity
        if packing == "v2":
            want = ref["pack_intweight"](t.to(torch.int32).contiguous(), interleave=4, kstride=64)
            ctx.count("reference_identity_v2")
            if want.dtype != data.dtype or tuple(want.shape) != tuple(data.shape) or not torch.equal(want, data):
                ctx.violation(dict(sig0, kind="v2_differs_from_reference_packer", filling=name), dict(desc=desc))
        else:
            want = ref["pack_awq"](t.to(torch.int32).contiguous(), reorder=reorder)
            ctx.count("reference_identity_v1_informational")
            if not torch.equal(want, data):
                ctx.count("v1_differs_from_reference_informational")


def check_equivalence(ctx, oq, AWQBitsTensor, rng, out_f, in_f, degenerate):
    """AWQ-optimised representation of a float16 group-128 int4 weight vs the standard one."""
    desc = dict(kind="equivalence", out_features=out_f, in_features=in_f, degenerate=degenerate)
    sig0 = dict(part="representation")
    w = torch.from_numpy(rng.standard_normal((out_f, in_f)) * float(np.exp(rng.uniform(np.log(0.01), np.log(4)))))
    if degenerate:
        for r_ in range(out_f):
            c = rng.random()
            if c < 0.15:
                w[r_] = w[r_].abs() + 0.01
            elif c < 0.3:
                w[r_] = -w[r_].abs() - 0.01
            elif c < 0.4:
                w[r_, :128] = 0
            elif c < 0.5:
                w[r_] = 0.125
            elif c < 0.75:
                # tiny rows: the float16 scale of their groups is subnormal (its reciprocal overflows float16)
                w[r_] = w[r_] * float(rng.choice([1e-4, 1e-5, 2e-6, 3e-7]))
    w = w.to(torch.float16)
    q = oq.quantize_weight(w, oq.qint4, 0, 128)
    inn, _ = fp.inner(q)
    codes = oracles.plain(inn["_data"].unpack())  # grouped code matrix
    scale, zp = oracles.plain(inn["_scale"]), oracles.plain(inn["_zeropoint"])
    if degenerate and rng.random() < 0.45:
        # synthetic triples (what a loaded checkpoint may contain): arbitrary codes and zero-points, scales that are exact
        # powers of two / one / tiny / huge. A zero scale is only paired with a zero zero-point (it is not recoverable from
        # the scaled zero-point the AWQ form stores, and the group dequantizes to 0 whatever it is).
        from optimum.quanto.tensor.qbits import QBitsTensor

        codes = torch.from_numpy(rng.integers(0, 16, size=tuple(codes.shape))).to(torch.uint8)
        pick = rng.integers(0, 8, size=tuple(scale.shape))
        vals = torch.tensor([1.0, 2.0, 0.5, 0.0, 6e-8, 3e-5, 64.0, 0.013], dtype=torch.float64)[torch.from_numpy(pick)]
        rnd = torch.from_numpy(np.exp(rng.uniform(np.log(1e-4), np.log(8.0), size=tuple(scale.shape))))
        scale = torch.where(torch.from_numpy(rng.random(tuple(scale.shape)) < 0.6), vals, rnd).to(torch.float16)
        zp = torch.from_numpy(rng.integers(0, 16, size=tuple(zp.shape))).to(zp.dtype)
        zp = torch.where(scale == 0, torch.zeros_like(zp), zp)
        q = QBitsTensor(oq.qint4, 0, 128, q.size(), q.stride(), codes.clone(), scale.clone(), zp.clone())
        ctx.count("synthetic_triples")
        desc = dict(desc, synthetic=True)
    try:
        acodes = codes.clone()
        if rng.random() < 0.3:
            # codes held in transposed storage (a view with the same values)
            acodes = acodes.t().contiguous().t()
            ctx.count("equivalence_weights_from_noncontiguous_codes")
        a = AWQBitsTensor(oq.qint4, 0, 128, q.size(), q.stride(), acodes, scale.clone(), zp.clone())
        ctx.count("equivalence_weights")
        da = oracles.plain(a.dequantize())
    except Exception as e:
        ctx.violation(dict(sig0, kind="awq_construction_or_dequantize_raises", exc=type(e).__name__),
                      dict(desc=desc, msg=str(e)[:300]))
        return
    ds = oracles.plain(q.dequantize())
    if tuple(da.shape) != tuple(ds.shape) or da.dtype != ds.dtype:
        ctx.violation(dict(sig0, kind="awq_dequantize_shape_or_dtype"), dict(desc=desc))
        return
    # one float16 rounding at the magnitude of max(|s*code|, |s*zp|)
    S = scale.to(F64).reshape(-1, 1)
    Z = zp.to(F64).reshape(-1, 1)
    C = codes.to(F64)
    mag = torch.maximum((S * C).abs(), (S * Z).abs()).reshape(ds.shape)
    # AWQ path: fl(fl(s*code) + fl(-zp*s)) = three roundings of at most half an ulp at that magnitude, the standard path one
    tol = 2.0 * num.ulp(mag, torch.float16) + num.ulp(ds.to(F64), torch.float16)
    diff = (da.to(F64) - ds.to(F64)).abs()
    bad = ~(diff <= tol)
    if (tol > 0).any():
        ctx.maxstat("awq_vs_standard diff/tol", float((diff[tol > 0] / tol[tol > 0]).max()))
    if bad.any():
        ctx.violation(dict(sig0, kind="awq_dequantizes_differently"), dict(desc=desc, **oracles._first(bad, awq=da, std=ds, diff=diff, tol=tol)))
    # conversion back (serialization / leaving the GPU)
    try:
        back = a.qbits_tensor()
        ctx.count("conversions_back")
        binn, _ = fp.inner(back)
        bcodes = oracles.plain(binn["_data"].unpack()) if fp.is_wrapper(binn["_data"]) else oracles.plain(binn["_data"])
        ok_codes = tuple(bcodes.shape) == tuple(codes.shape) and torch.equal(bcodes, codes)
        ok_scale = tuple(binn["_scale"].shape) == tuple(scale.shape) and fp.plain_bytes(oracles.plain(binn["_scale"])) == \
            fp.plain_bytes(scale)
        bz = oracles.plain(binn["_zeropoint"])
        ok_zp = bz.dtype == zp.dtype and tuple(bz.shape) == tuple(zp.shape) and torch.equal(bz, zp)
        if not (ok_codes and ok_scale and ok_zp):
            ctx.violation(dict(sig0, kind="conversion_back_does_not_restore", codes=ok_codes, scales=ok_scale,
                               zeropoints=ok_zp), dict(desc=desc, zp_dtype=str(bz.dtype), codes_shape=list(bcodes.shape)))
        else:
            dback = oracles.plain(back.dequantize())
            if fp.plain_bytes(dback) != fp.plain_bytes(ds):
                ctx.violation(dict(sig0, kind="converted_back_dequantizes_differently"), dict(desc=desc))
        # serialization of the optimised tensor goes through the conversion
        dest = {}
        a.save_to_state_dict(dest, "w.", False)
        dest2 = {}
        q.save_to_state_dict(dest2, "w.", False)
        diffk = [k for k in sorted(set(dest) | set(dest2)) if k not in dest or k not in dest2 or (
            (fp.plain_bytes(dest[k]) != fp.plain_bytes(dest2[k]) or dest[k].dtype != dest2[k].dtype)
            if isinstance(dest.get(k), torch.Tensor) and isinstance(dest2.get(k), torch.Tensor) else dest[k] != dest2[k])]
        if diffk:
            ctx.violation(dict(sig0, kind="awq_state_dict_differs_from_standard"), dict(desc=desc, keys=diffk[:6]))
    except Exception as e:
        ctx.violation(dict(sig0, kind="conversion_back_raises", exc=type(e).__name__), dict(desc=desc, msg=str(e)[:300]))


def run(ctx):
    import optimum.quanto as oq

    if __debug__:
        ctx.inconclusive("C15 must run under python -O (assert statements guard the CUDA-only AWQ code)")
        return
    sys.path.insert(0, os.path.join(runner.REPO, "external", "awq"))
    from pack_intweight import pack_intweight
    from packing_utils import pack_awq

    AWQPackedTensor, AWQPacking, AWQBitsTensor = oq.AWQPackedTensor, oq.AWQPacking, oq.AWQBitsTensor
    ref = {"pack_intweight": pack_intweight, "pack_awq": pack_awq}
    warnings.simplefilter("ignore")
    rng = ctx.rng
    thorough = ctx.tier == "thorough"
    k = 0
    # v2: rows multiple of 4, columns multiple of 64
    rows2 = list(range(4, 65, 4)) + ([96, 128, 192, 256] if thorough else [])
    cols2 = list(range(64, 513, 64)) + ([640, 768, 1024] if thorough else [])
    cases = [("v2", False, N, K) for N in rows2 for K in cols2]
    # the v2 entry point also takes (and stores) the reorder flag: packing ignores it, so unpacking must as well
    cases += [("v2", True, N, K) for N in rows2[::3] for K in cols2[::2]]
    rows1 = [1, 2, 3, 4, 7, 16, 33] + ([64, 100, 128] if thorough else [])
    cols1 = list(range(8, 129, 8)) + ([192, 256, 512] if thorough else [])
    for reorder in (False, True):
        cases += [("v1", reorder, N, K) for N in rows1 for K in cols1]
    # interleave the packings inside one process: the layout must not depend on what was packed before
    order = rng.permutation(len(cases))
    for idx in order:
        packing, reorder, N, K = cases[int(idx)]
        k += 1
        if not ctx.mine(k):
            continue
        if not ctx.case(dict(packing=packing, reorder=reorder, rows=N, cols=K)):
            continue
        ctx.count("v2_shapes" if packing == "v2" else "v1_shapes")
        check_packing(ctx, oq, AWQPackedTensor, AWQPacking, ctx.crng, N, K, packing, reorder, ref)
        blocks = (N > 4 and K > 64) if packing == "v2" else (N > 1 and K > 8)
        if blocks:
            ctx.nontrivial(packing, reorder, N, K)
        if k % 41 == 0:
            ctx.sample(dict(packing=packing, reorder=reorder, rows=N, cols=K))
    # representation equivalence and conversion back
    n_eq = (200 if not thorough else 5000) // ctx.nshards
    for i in range(n_eq):
        out_f = int(rng.choice([4, 8, 12, 32, 64]))
        in_f = int(rng.choice([128, 256, 384, 512]))
        deg = bool(rng.random() < 0.5)
        if not ctx.case(dict(kind="equivalence", out_features=out_f, in_features=in_f, degenerate=deg)):
            continue
        check_equivalence(ctx, oq, AWQBitsTensor, ctx.crng, out_f, in_f, deg)
        ctx.nontrivial("eq", out_f, in_f, deg, i)
