"""C16 — finite tensors never quantize to NaN/Inf, whatever their range (DESIGN.md section 4, C16)."""

import numpy as np
import torch

from qv import attach, fp, gen, num, oracles
from qv.props.c02 import SHAPES, build_tensor

F64 = torch.float64

META = dict(
    level="exploration",
    shards={"quick": 8, "thorough": 16},
    watchdog_s={"quick": 900, "thorough": 3600},
    evaluations_counter="cases",
    min={"weight_cases": 1000, "calibration_sequences": 100, "zero_weight_layers": 100,
         "activation_quantizations_judged": 200},
    anchors=["tensor/qweight.py:quantize_weight",
             "calibrate.py:Calibration.__enter__",
             "tensor/qactivation.py:quantize_activation",
             "calibrate.py:absmax_scale",
             "calibrate.py:Calibration.calibrate_output",
             "tensor/optimizers/absmax_optimizer.py:AbsmaxOptimizer.optimize",
             "tensor/optimizers/max_optimizer.py:MaxOptimizer.optimize"],
    rule="case = (A) weight tensor assembled from degenerate row/group classes {zeros, constant, one-sided, offset, "
         "subnormal, tiny, near dtype max, mixed, single non-zero, heavy tail} in pairs x six qtypes x axis x group size "
         "x dtype, (B) calibration sequence containing zero/constant/tiny/huge batches followed by ordinary inference "
         "batches on Linear/Conv2d/LayerNorm with qint8/qfloat8 activations, (C) Linear/Conv2d with all-zero weights; "
         "non-trivial when >=2 different degenerate classes are mixed (A), the sequence holds >=1 degenerate batch (B); "
         "distinct by hash of configuration and class assignment",
    assumptions=["error bounds are those of C01 (relative to the chosen scale, elements whose neighbouring grid points "
                 "are finite) and C02", "a zero scale denotes the grid {0}: the dequantized value must then be exactly 0"],
)

CLASSES = ["zeros", "constant", "one_sided_pos", "one_sided_neg", "offset", "subnormal", "tiny", "near_max", "mixed",
           "single_nonzero", "heavy_tail", "ordinary"]
STORAGE = {"qint8": torch.int8, "qfloat8_e4m3fn": torch.float8_e4m3fn, "qfloat8_e5m2": torch.float8_e5m2,
           "qfloat8": torch.float8_e4m3fn}
QT8 = list(STORAGE)


def classify_nonfinite(x, assign, wd):
    fm = torch.finfo(wd).max
    amax = float(x.abs().max())
    if amax * 127.0 / 127.0 >= fm * (1 - 2 ** -7) or "near_max" in assign:
        return "near_dtype_max"
    if any(c in assign for c in ("zeros", "single_nonzero")):
        return "zero_range"
    if any(c in assign for c in ("subnormal", "tiny")):
        return "underflowing_range"
    return "ordinary_range"


def judge_sym_result(ctx, x, qtn, q, sig0, desc, assign):
    """C16 oracle for an 8-bit result: finite, and the C01 bound relative to the chosen scale."""
    wd = x.dtype
    dq = oracles.plain(q.dequantize())
    inn, _ = fp.inner(q)
    scale = oracles.plain(inn["_scale"])
    nonfin = ~torch.isfinite(dq)
    sfin = torch.isfinite(scale).all()
    if nonfin.any() or not bool(sfin):
        S = scale.to(F64).expand_as(x) if scale.ndim else scale.to(F64)
        bad_idx = int(torch.nonzero(nonfin.reshape(-1))[0]) if nonfin.any() else 0
        s_at = float(S.reshape(-1)[bad_idx]) if scale.ndim else float(S)
        x_at = float(x.reshape(-1)[bad_idx])
        fmx = torch.finfo(wd).max
        code_at = float(oracles._codes64(oracles.plain(inn["_data"])).reshape(-1)[bad_idx]) if nonfin.any() else 0.0
        if s_at == 0.0:
            mech = "null_scale"
        elif not np.isfinite(s_at):
            mech = "nonfinite_scale"
        elif np.isfinite(code_at) and abs(code_at * s_at) > fmx * (1 - 2.0 ** -9) and abs(x_at) >= 0.875 * fmx:
            # the element lies within one float8 rounding of the dtype's maximum and its grid point is beyond it
            mech = "near_max_element_rounds_beyond_dtype_max"
        else:
            mech = "other"
        ctx.violation(dict(sig0, kind="nonfinite_dequantized", mechanism=mech,
                           family="float8" if "float8" in qtn else "int8"),
                      dict(count=int(nonfin.sum()), x=x_at, scale=s_at, desc=desc))
        return
    S = scale.to(F64)
    zero = (S == 0)
    if zero.any():
        zmask = zero.expand_as(x) if scale.ndim else torch.full(x.shape, bool(zero))
        bad = zmask & (dq != 0)
        if bad.any():
            ctx.violation(dict(sig0, kind="null_scale_nonzero_value"), dict(desc=desc))
        sc = torch.where(zero, torch.ones_like(scale), scale)
        jm = ~zmask
    else:
        sc, jm = scale, None
    # the default optimizer's scale must cover the tensor (C03's non-saturation clause restated here: a scale that
    # collapses - e.g. from a signed instead of an absolute maximum - keeps every value finite and on the grid while
    # the weight is lost): the largest |element| of every scale group is at most qmax x scale, up to rounding
    try:
        if sig0.get("site") != "quantize_weight":
            raise StopIteration  # activations are quantized with scales calibrated on other batches: saturation is legitimate
        qmax = 127.0  # the symmetric weight optimizer maps absmax to 127 for every 8-bit qtype (finding C03-F2)
        Sx = S.abs().expand_as(x) if scale.ndim else S.abs() * torch.ones_like(x, dtype=F64)
        Xa = x.to(F64).abs()
        lim = qmax * (Sx + 2 * num.ulp(Sx, wd)) + num.ulp(Xa, wd)
        over = (Xa > lim) & (Sx >= num.smallest_normal(wd)) if False else (Xa > lim)
        # scales at the floor (all-zero or underflowing ranges) are the documented exception: the range itself is below it
        floor = float(torch.finfo(wd).smallest_normal * torch.finfo(wd).eps)
        over = over & ~(Sx <= 2 * floor) | (over & (Sx <= 2 * floor) & (Xa > 127.0 * 4 * floor))
        ctx.count("saturation_checks")
        if over.any():
            i = int(torch.nonzero(over.reshape(-1))[0])
            ctx.violation(dict(sig0, kind="default_scale_saturates_its_own_tensor", family="float8" if "float8" in qtn else "int8"),
                          dict(x=float(x.reshape(-1)[i]), scale=float(Sx.reshape(-1)[i]), desc=desc))
    except StopIteration:
        pass
    except Exception as e:  # noqa
        ctx.count("saturation_check_errors")
    stats = {}
    fails = oracles.check_symmetric(x, STORAGE[qtn], sc, q, stats=stats, judge_mask=jm)
    ctx.count("elements_judged", stats.get("judged", 0))
    for f in fails:
        if zero.any() and f["kind"] in ("dequantize_not_scale_times_code",):
            continue
        ctx.violation(dict(sig0, kind="c01:" + f["kind"], family="float8" if "float8" in qtn else "int8"),
                      dict(fail=f, desc=desc))


def part_weights(ctx, oq, n):
    rng = ctx.rng
    for it in range(n):
        shape = SHAPES[rng.integers(len(SHAPES))]
        wd = [torch.float32, torch.float16, torch.bfloat16][rng.integers(3)]
        nd = len(shape)
        low = rng.random() < 0.45
        if low:
            bits = int(rng.choice([2, 4]))
            qtn = "qint%d" % bits
            axis = int(rng.choice([0, -1]))
            per = int(np.prod(shape)) // shape[0 if axis == 0 else -1]
            divs = gen.divisors(per)
            gs = None if rng.random() < 0.4 else int(divs[rng.integers(len(divs))])
            if nd == 1 and gs is not None:
                gs = 1
        else:
            qtn = QT8[rng.integers(len(QT8))]
            axis = int(rng.choice([0, -1]))
            gs = None
        if nd == 1 and not low:
            continue
        x, assign, gid = build_tensor(rng, shape, axis if (nd > 1 or gs is not None) else None, gs, wd, classes=CLASSES,
                                      maxmag=min(1e30, torch.finfo(wd).max / 2))
        u = rng.random()
        lay = "contiguous"
        if nd >= 2 and u < 0.35:  # same values in transposed storage, channels_last or a window of a larger buffer
            if nd == 4 and u < 0.1:
                x, lay = x.contiguous(memory_format=torch.channels_last), "channels_last"
            else:
                lay = "transposed" if u < 0.24 else "sliced"
                x = next(gen.layouts(x, which=(lay,)))[1]
        desc = dict(part="weights", dtype=str(wd), qtype=qtn, axis=axis, group_size=gs, shape=list(shape),
                    classes=sorted(set(assign)), layout=lay)
        if not ctx.case(desc):
            continue
        ctx.count("weight_cases")
        ctx.see("layouts", lay)
        sig0 = dict(site="quantize_weight", qtype=qtn if low else ("float8" if "float8" in qtn else "int8"),
                    dtype=str(wd))
        try:
            q = oq.quantize_weight(x, oq.qtypes[qtn], axis, gs) if low else oq.quantize_weight(x, oq.qtypes[qtn], axis)
        except Exception as e:
            ctx.violation(dict(sig0, kind="raises", exc=type(e).__name__), dict(msg=str(e)[:300], desc=desc))
            continue
        ctx.see("class_x_qtype", qtn + ":" + "+".join(sorted(set(assign)))[:60], cap=3000)
        for c in set(assign):
            ctx.see("class_qtype_pairs", c + "/" + qtn)
        if len(set(assign)) >= 2:
            ctx.nontrivial("w", str(wd), qtn, axis, gs, tuple(shape), tuple(assign[:12]))
        if low:
            dq = oracles.plain(q.dequantize())
            if not torch.isfinite(dq).all():
                X = x.to(F64)
                ax = axis if not (nd == 1 and gs is None) else None
                g = num.group_ids(tuple(shape), ax, gs)
                lo, hi = oracles.group_hull(X, g, int(g.max()) + 1)
                i = int(torch.nonzero(~torch.isfinite(dq).reshape(-1))[0])
                rng_at = float((hi - lo).reshape(-1)[i])
                if rng_at == 0.0:
                    mech = "null_range"
                elif rng_at >= torch.finfo(wd).max * (1 - 2.0 ** -8):
                    mech = "range_at_or_above_dtype_max"
                elif rng_at / (2 ** bits - 1) < num.smallest_subnormal(wd):
                    mech = "step_underflows"
                else:
                    mech = "other"
                ctx.violation(dict(sig0, kind="nonfinite_dequantized", mechanism=mech),
                              dict(count=int((~torch.isfinite(dq)).sum()), range=rng_at, desc=desc))
                continue
            ax = axis
            inn, _ = fp.inner(q)
            if nd == 1 and gs is None and inn["_scale"].numel() == 1:
                ax = None
            stats = {}
            fails = oracles.check_affine(x, bits, ax, gs, q, stats=stats)
            ctx.count("elements_judged", stats.get("elements", 0))
            if "max_err_over_bound" in stats:
                ctx.maxstat("affine err/bound:" + str(wd), stats["max_err_over_bound"])
            for f in fails:
                mech = "other"
                if "hi" in f and "lo" in f:
                    r = f["hi"] - f["lo"]
                    if r >= torch.finfo(wd).max * (1 - 2.0 ** -8):
                        mech = "range_at_or_above_dtype_max"
                    elif r / (2 ** bits - 1) < num.smallest_normal(wd):
                        mech = "step_underflows"
                ctx.violation(dict(sig0, kind="c02:" + f["kind"], mechanism=mech), dict(fail=f, desc=desc))
        else:
            judge_sym_result(ctx, x, qtn, q, sig0, desc, assign)
        if it % 89 == 0:
            ctx.sample(desc)


BATCH_KINDS = ["zeros", "constant", "tiny", "huge", "single_nonzero", "ordinary", "subnormal"]


def make_batch(rng, kind, shape, wd):
    fi = torch.finfo(wd)
    n = int(np.prod(shape))
    if kind == "huge":
        v = rng.uniform(-1, 1, n) * fi.max / 4
    elif kind == "zeros":
        v = np.zeros(n)
    elif kind == "constant":
        v = np.full(n, float(gen.loguniform(rng, 1e-2, 1e2)))
    else:
        v = gen.value_class(rng, kind, n, wd, float(gen.loguniform(rng, 1e-2, 1e2)))
    return torch.tensor(v, dtype=F64).reshape(shape).to(wd)


def float_finite(model, b):
    """Scale a batch down until the *float* model keeps every intermediate activation finite and below max/8:
    the property speaks about finite activation tensors, so overflow of the float model itself is out of scope."""
    seen = []
    hs = [m.register_forward_hook(lambda mod, i, o: seen.append(o)) for m in model.modules()]
    try:
        for _ in range(12):
            seen.clear()
            with torch.no_grad():
                model(b)
            lim = torch.finfo(b.dtype).max / 8
            if any(isinstance(m, torch.nn.LayerNorm) for m in model.modules()):
                # LayerNorm squares its input: keep a wide margin below sqrt(max) so that the *quantized* model (whose
                # int2/int4 layers can be far from their float twins) does not overflow inside the float kernel either
                lim = min(lim, torch.finfo(b.dtype).max ** 0.5 / 64)
            if all(torch.isfinite(o).all() and float(o.abs().max()) < lim for o in seen):
                return b
            b = b * 1e-2
    finally:
        for h in hs:
            h.remove()
    return torch.zeros_like(b)


def part_calibration(ctx, oq, n):
    rng = ctx.rng
    orig_qa = oq.quantize_activation
    state = {"on": False, "sig0": None, "desc": None}

    def qa_monitor(t, qtype, scale):
        out = orig_qa(t, qtype, scale)
        if state["on"] and type(t) is torch.Tensor and t.is_floating_point() and qtype.name in STORAGE:
            ctx.count("activation_quantizations_judged")
            try:
                judge_sym_result(ctx, t.detach(), qtype.name, out, dict(state["sig0"], site="quantize_activation"),
                                 state["desc"], ["activation"])
            except Exception as e:  # oracle trouble is not evidence
                ctx.inconclusive(f"activation oracle raised {type(e).__name__}: {e}")
        return out

    with attach.Patches() as P:
        P.everywhere(orig_qa, qa_monitor)
        for it in range(n):
            wd = [torch.float32, torch.float16, torch.bfloat16][rng.integers(3)]
            act = ["qint8", "qfloat8_e4m3fn", "qfloat8_e5m2"][rng.integers(3)]
            wq = ["qint8", "qfloat8", "qint4", "qint2"][rng.integers(4)]
            mk = ["linear", "conv", "layernorm", "chain"][rng.integers(4)]
            seq = [BATCH_KINDS[rng.integers(len(BATCH_KINDS))] for _ in range(int(rng.integers(1, 5)))]
            if rng.random() < 0.5:
                seq[int(rng.integers(len(seq)))] = ["zeros", "constant", "tiny", "huge"][rng.integers(4)]
            desc = dict(part="calibration", dtype=str(wd), activations=act, weights=wq, model=mk, batches=seq)
            if not ctx.case(desc):
                continue
            crng = ctx.crng  # everything below (torch init included) is seeded by the case
            if mk == "linear":
                model = torch.nn.Sequential(torch.nn.Linear(16, 8))
                shape = (4, 16)
            elif mk == "conv":
                model = torch.nn.Sequential(torch.nn.Conv2d(3, 4, 3, padding=1))
                shape = (2, 3, 6, 6)
            elif mk == "layernorm":
                model = torch.nn.Sequential(torch.nn.LayerNorm(16))
                shape = (4, 16)
            else:
                model = torch.nn.Sequential(torch.nn.Linear(16, 16), torch.nn.LayerNorm(16), torch.nn.Linear(16, 8))
                shape = (4, 16)
            model = model.to(wd).eval()
            batches = [float_finite(model, make_batch(crng, k, shape, wd)) for k in seq]
            infer = [float_finite(model, make_batch(crng, "ordinary", shape, wd)) for _ in range(2)] + [batches[-1]]
            ctx.count("calibration_sequences")
            sig0 = dict(site="calibrate_then_infer", activations="float8" if "float8" in act else "int8",
                        dtype=str(wd), model=mk)
            try:
                with torch.no_grad():
                    oq.quantize(model, weights=oq.qtypes[wq], activations=oq.qtypes[act])
                    with oq.Calibration(streamline=False):
                        for b in batches:
                            model(b)
                    # scales must be finite
                    for name, m in model.named_modules():
                        for sn in ("input_scale", "output_scale"):
                            if hasattr(m, sn):
                                sv = getattr(m, sn)
                                if not torch.isfinite(sv).all():
                                    ctx.violation(dict(sig0, kind="nonfinite_calibrated_scale", which=sn),
                                                  dict(desc=desc, value=float(sv)))
                    state.update(on=True, sig0=sig0, desc=desc)
                    for b in infer:
                        out = model(b)
                        o = out.dequantize() if hasattr(out, "qtype") else out
                        ctx.count("inference_outputs")
                        if not torch.isfinite(oracles.plain(o)).all():
                            kinds = set(seq)
                            ctx.violation(dict(sig0, kind="nonfinite_inference_output",
                                               after="degenerate" if kinds & {"zeros", "tiny", "subnormal"} else
                                               ("huge" if "huge" in kinds else "ordinary")),
                                          dict(desc=desc))
                    state["on"] = False
            except Exception as e:
                state["on"] = False
                ctx.violation(dict(sig0, kind="raises", exc=type(e).__name__), dict(msg=str(e)[:300], desc=desc))
                continue
            if set(seq) & {"zeros", "constant", "tiny", "huge", "subnormal", "single_nonzero"}:
                ctx.nontrivial("c", str(wd), act, wq, mk, tuple(seq))
            ctx.see("batch_kinds", "+".join(sorted(set(seq))))
            if it % 23 == 0:
                ctx.sample(desc)


def part_zero_weight(ctx, oq, n):
    rng = ctx.rng
    for it in range(n):
        wd = [torch.float32, torch.float16, torch.bfloat16][rng.integers(3)]
        wq = ["qint8", "qfloat8", "qfloat8_e4m3fn", "qfloat8_e5m2", "qint4", "qint2"][rng.integers(6)]
        conv = rng.random() < 0.4
        bias = rng.random() < 0.7
        frozen = rng.random() < 0.5
        xkind = ["ordinary", "huge", "constant", "zeros"][rng.integers(4)] if wd != torch.float16 else \
            ["ordinary", "constant", "zeros"][rng.integers(3)]
        if conv:
            cin, cout, k, pad = int(rng.integers(1, 5)), int(rng.integers(1, 5)), int(rng.integers(1, 4)), int(rng.integers(0, 2))
            xshape = (2, cin, 5, 5)
        else:
            fin, fout = int(rng.choice([1, 3, 8, 16, 33, 160, 256])), int(rng.choice([1, 2, 8, 17]))
            if gen.int8pack_crash_class(wd, wq, fin):
                ctx.count("steered_around_known_crash_class")
                fin += 1
            xshape = (int(rng.integers(1, 20)), fin)
        desc = dict(part="zero_weight", dtype=str(wd), weights=wq, conv=conv, bias=bias, frozen=frozen,
                    xshape=list(xshape), x=xkind)
        if not ctx.case(desc):
            continue
        rng_c = ctx.crng
        layer = torch.nn.Conv2d(cin, cout, k, bias=bias, padding=pad) if conv else torch.nn.Linear(fin, fout, bias=bias)
        ctx.count("zero_weight_layers")
        with torch.no_grad():
            layer.weight.zero_()
            if bias:
                layer.bias.copy_(torch.tensor(gen.loguniform(rng_c, 1e-3, 1e3, size=layer.bias.numel())
                                              * rng_c.choice([-1, 1], layer.bias.numel())))
        model = torch.nn.Sequential(layer).to(wd).eval()
        x = make_batch(rng_c, xkind, xshape, wd)
        sig0 = dict(site="zero_weight_layer", family=wq if wq in ("qint4", "qint2") else
                    ("float8" if "float8" in wq else "int8"), dtype=str(wd), conv=conv)
        try:
            with torch.no_grad():
                oq.quantize(model, weights=oq.qtypes[wq])
                if frozen:
                    oq.freeze(model)
                out = oracles.plain(model(x))
                b = model[0].bias
        except Exception as e:
            ctx.violation(dict(sig0, kind="raises", exc=type(e).__name__), dict(msg=str(e)[:300], desc=desc))
            continue
        if b is None:
            want = torch.zeros_like(out)
        else:
            want = (b.detach().reshape(1, -1, 1, 1) if conv else b.detach().reshape(1, -1)).expand_as(out).to(out.dtype)
        if not torch.equal(out, want) or not torch.isfinite(out).all():
            # -0.0 vs 0.0 are the same value; compare values, NaN-safe
            same = bool(((out == want) | (torch.isnan(out) & torch.isnan(want))).all()) and torch.isfinite(out).all()
            if not same:
                ctx.violation(dict(sig0, kind="zero_weight_output_not_bias",
                                   nonfinite=bool(~torch.isfinite(out).all())),
                              dict(desc=desc, out=out.flatten()[:6], want=want.flatten()[:6]))
        ctx.nontrivial("z", str(wd), wq, conv, bias, frozen, tuple(xshape))
        if it % 31 == 0:
            ctx.sample(desc)


def run(ctx):
    import optimum.quanto as oq

    q = ctx.tier == "quick"
    nw = (3000 if q else 100_000) // ctx.nshards
    nc = (240 if q else 5000) // ctx.nshards
    nz = (320 if q else 5000) // ctx.nshards
    part_weights(ctx, oq, nw)
    part_calibration(ctx, oq, nc)
    part_zero_weight(ctx, oq, nz)
