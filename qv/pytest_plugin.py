"""pytest plugin: runs the repository's own tests with the dispatch monitor attached (extra workload diversity for the
thorough tiers of C05 / C06).  Usage (from the tree under test):

    QV_PLUGIN_OUT=<file> QV_PLUGIN_PROP=C05 python -m pytest -p qv.pytest_plugin -p no:cacheprovider test/tensor test/nn ...

The plugin never changes a test's outcome: the monitor only observes and re-raises.
"""

import json
import os

_state = {}


def pytest_sessionstart(session):
    from qv import dispatchmon, runner

    prop = os.environ.get("QV_PLUGIN_PROP", "C05")
    ctx = runner.Ctx(prop, "thorough", int(os.environ.get("VERIF_SEED", "0") or 0))
    mon = dispatchmon.Monitor(ctx, judge_c05=(prop == "C05"), judge_c06=True if prop == "C06" else "taint")
    mon.install()
    _state.update(ctx=ctx, mon=mon)


def pytest_runtest_setup(item):
    mon = _state.get("mon")
    if mon is not None:
        mon.step_info = {"test": item.nodeid[:160]}
        _state["ctx"].case_desc = {"test": item.nodeid[:160]}
        _state["ctx"].count("suite_tests")


def pytest_sessionfinish(session, exitstatus):
    mon, ctx = _state.get("mon"), _state.get("ctx")
    if mon is None:
        return
    mon.uninstall()
    out = os.environ.get("QV_PLUGIN_OUT")
    if out:
        with open(out, "w") as f:
            json.dump(ctx.dump(), f)
