"""Anchor-reach monitor and source-free failpoints, built on sys.monitoring (PY_START).

Counts entries of every function whose code lives under <repo>/optimum/quanto (DISABLE is returned for
any other code object, so the cost outside the repo is paid once per code object).  Names are
"<path relative to optimum/quanto>:<qualname>", independent of line numbers.
"""

import os
import sys

TOOL = 4  # a free tool id (0..5); 4 is not reserved by debugger/coverage/profiler/optimizer

_counts = {}
_failpoints = {}  # name -> dict(k=<entry number at which to raise>, exc=<exception instance factory>, seen=0)
_root = None
_active = False


def _name(code):
    fn = code.co_filename
    if _root and fn.startswith(_root):
        return fn[len(_root) + 1:] + ":" + code.co_qualname
    return None


def _on_start(code, offset):
    n = _name(code)
    if n is None:
        return sys.monitoring.DISABLE
    _counts[n] = _counts.get(n, 0) + 1
    fp = _failpoints.get(n)
    if fp is not None:
        fp["seen"] += 1
        if fp["seen"] == fp["k"]:
            fp["fired"] = True
            raise fp["exc"]()
    return None


def start(repo):
    global _root, _active
    _root = os.path.join(os.path.realpath(repo), "optimum", "quanto")
    if _active:
        return
    m = sys.monitoring
    try:
        m.use_tool_id(TOOL, "qv-reach")
    except ValueError:
        pass
    m.register_callback(TOOL, m.events.PY_START, _on_start)
    m.set_events(TOOL, m.events.PY_START)
    _active = True


def stop():
    global _active
    if not _active:
        return
    m = sys.monitoring
    m.set_events(TOOL, 0)
    m.register_callback(TOOL, m.events.PY_START, None)
    try:
        m.free_tool_id(TOOL)
    except Exception:
        pass
    _active = False


def counts():
    return dict(_counts)


def count(name):
    return _counts.get(name, 0)


def set_failpoint(name, k, exc_factory):
    """Raise exc_factory() on the k-th entry (1-based, counted from now) of the named repo function."""
    _failpoints[name] = {"k": k, "exc": exc_factory, "seen": 0, "fired": False}


def clear_failpoint(name=None):
    if name is None:
        _failpoints.clear()
    else:
        _failpoints.pop(name, None)


def failpoint_fired(name):
    fp = _failpoints.get(name)
    return bool(fp and fp.get("fired"))


def flush_into(ctx):
    for k, v in _counts.items():
        ctx.counters["reach:" + k] = ctx.counters.get("reach:" + k, 0) + v
