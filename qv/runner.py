"""Runner: tiers, seeds, shards (worker subprocesses with intent logs), three-valued verdicts,
known-findings classification, evidence writing.

A property module (qv.props.cNN) exposes

    META = dict(level=..., rule=..., assumptions=[...], shards={"quick": n, "thorough": m},
                min_evaluations=..., anchors=[qualified names of public entry points], ...)
    def run(ctx): ...            # executes the workload of shard ctx.shard / ctx.nshards

The worker calls ``ctx.case(desc)`` before each case (call event before the call): it writes the
intent log, reseeds the per-case generators and returns False when the case must be skipped
(resume after a crash, or replay of one single case).
"""

import hashlib
import importlib
import json
import os
import signal
import subprocess
import sys
import tempfile
import time
import traceback

VERIF = os.path.dirname(os.path.dirname(os.path.abspath(__file__)))
REPO = os.environ.get("QV_REPO", "/repo")
PY = os.environ.get("QV_PYTHON", "/venv/bin/python")
OUT = os.environ.get("QV_OUT", VERIF)  # evidence/ and replay/ live here (self-tests redirect it)

EXIT_HELD, EXIT_VIOLATED, EXIT_INCONCLUSIVE = 0, 1, 2


def _h(*parts):
    m = hashlib.sha256()
    for p in parts:
        m.update(repr(p).encode())
        m.update(b"|")
    return m.hexdigest()


def jsonable(x, depth=0):
    """Best-effort conversion of witnesses to JSON."""
    import numbers

    if depth > 6:
        return repr(x)[:200]
    if x is None or isinstance(x, (bool, str)):
        return x
    if isinstance(x, numbers.Integral):
        return int(x)
    if isinstance(x, numbers.Real):
        f = float(x)
        if f != f or f in (float("inf"), float("-inf")):
            return repr(f)
        return f
    if isinstance(x, dict):
        return {str(k): jsonable(v, depth + 1) for k, v in x.items()}
    if isinstance(x, (list, tuple, set, frozenset)):
        return [jsonable(v, depth + 1) for v in list(x)[:64]]
    try:
        import torch

        if isinstance(x, torch.Tensor):
            with torch._C.DisableTorchFunctionSubclass():
                d = {"tensor": type(x).__name__, "shape": list(x.shape), "dtype": str(x.dtype)}
                if type(x) is torch.Tensor and x.numel() <= 64 and x.device.type == "cpu":
                    d["values"] = jsonable(x.detach().to(torch.float64).flatten().tolist(), depth + 1)
                return d
        if isinstance(x, (torch.dtype, torch.Size, torch.device)):
            return str(x)
    except Exception:
        pass
    return repr(x)[:300]


class Ctx:
    """Per-shard monitor context. All state is plain data so that shards merge by union/sum."""

    def __init__(self, prop, tier, seed, shard=0, nshards=1, intent_path=None, resume_after=-1, only_case=None):
        self.prop, self.tier, self.seed = prop, tier, seed
        self.shard, self.nshards = shard, nshards
        self.intent_path = intent_path
        self._intent = open(intent_path, "a") if intent_path else None
        self.resume_after = resume_after
        self.only_case = only_case
        self.case_index = -1
        self.case_desc = None
        self.counters = {}
        self.sets = {}
        self.maxstats = {}
        self.nontrivial_keys = set()
        self.samples = []
        self.violations = []
        self.inconclusive_reasons = []
        self.t0 = time.time()
        import numpy as np

        self.np = np
        # generator-level randomness (always consumed identically, whatever cases are skipped)
        self.rng = np.random.default_rng([seed, shard, nshards, int(_h(prop)[:8], 16)])
        self.crng = self.rng  # per-case generator, replaced by case()

    # -- cases -----------------------------------------------------------------------------
    def case(self, desc=None):
        self.case_index += 1
        self.case_desc = desc
        if self.only_case is not None and self.case_index != self.only_case:
            return False
        if self.case_index <= self.resume_after:
            return False
        cs = int(_h(self.prop, self.seed, self.shard, self.nshards, self.case_index)[:12], 16)
        self.crng = self.np.random.default_rng(cs)
        try:
            import torch

            torch.manual_seed(cs % (2**31))
        except Exception:
            pass
        if self._intent:
            self._intent.write(json.dumps({"i": self.case_index, "desc": jsonable(desc)}) + "\n")
            self._intent.flush()
        self.count("cases")
        return True

    def mine(self, k):
        """Static partition of an enumerated space over shards."""
        return k % self.nshards == self.shard

    # -- observations ----------------------------------------------------------------------
    def count(self, name, n=1):
        self.counters[name] = self.counters.get(name, 0) + int(n)

    def see(self, name, value, cap=4096):
        s = self.sets.setdefault(name, set())
        if len(s) < cap:
            s.add(value if isinstance(value, (str, int)) else repr(value))

    def maxstat(self, name, value):
        v = float(value)
        if v != v:
            return
        if name not in self.maxstats or v > self.maxstats[name]:
            self.maxstats[name] = v

    def nontrivial(self, *key):
        self.nontrivial_keys.add(_h(*key)[:16])

    def sample(self, obj, cap=6):
        if len(self.samples) < cap:
            self.samples.append(jsonable(obj))

    def violation(self, sig, detail=None):
        """sig: flat dict of strings describing the *mechanism* (site, exception, qtype family, ...)"""
        sig = {str(k): str(v) for k, v in sig.items()}
        rec = {
            "sig": sig,
            "detail": jsonable(detail),
            "case": {
                "shard": self.shard,
                "nshards": self.nshards,
                "index": self.case_index,
                "desc": jsonable(self.case_desc),
            },
        }
        self.count("violations_raw")
        key = _h(sorted(sig.items()))
        n = sum(1 for v in self.violations if v["key"] == key)
        rec["key"] = key
        if n < 3:  # keep the first witnesses per mechanism signature; count all
            self.violations.append(rec)
        self.counters["sig:" + key] = self.counters.get("sig:" + key, 0) + 1

    def inconclusive(self, reason):
        self.inconclusive_reasons.append(str(reason))

    # -- shard result ----------------------------------------------------------------------
    def dump(self):
        return {
            "counters": self.counters,
            "sets": {k: sorted(v, key=repr) for k, v in self.sets.items()},
            "maxstats": self.maxstats,
            "nontrivial": sorted(self.nontrivial_keys),
            "samples": self.samples,
            "violations": self.violations,
            "inconclusive": self.inconclusive_reasons,
            "wall_s": time.time() - self.t0,
        }


def merge(results):
    out = {"counters": {}, "sets": {}, "maxstats": {}, "nontrivial": set(), "samples": [], "violations": [],
           "inconclusive": []}
    for r in results:
        for k, v in r["counters"].items():
            out["counters"][k] = out["counters"].get(k, 0) + v
        for k, v in r["sets"].items():
            out["sets"].setdefault(k, set()).update(v)
        for k, v in r["maxstats"].items():
            out["maxstats"][k] = max(out["maxstats"].get(k, v), v)
        out["nontrivial"].update(r["nontrivial"])
        out["samples"].extend(r["samples"])
        out["violations"].extend(r["violations"])
        out["inconclusive"].extend(r["inconclusive"])
    return out


# ---------------------------------------------------------------------------------------------
# worker side
# ---------------------------------------------------------------------------------------------

def setup_repo_path():
    """Import quanto from the working tree named by QV_REPO (default /repo)."""
    if REPO not in sys.path:
        sys.path.insert(0, REPO)


def _raised_in_repo(e):
    """'<relpath>:<function>' of the innermost frame when it lies in the tree under test and no harness frame follows it
    (a hook or wrapper of ours running inside repo code does not count), else None."""
    try:
        root = os.path.realpath(os.path.join(REPO, "optimum", "quanto"))
        tb = e.__traceback__
        frames = []
        while tb is not None:
            frames.append((os.path.realpath(tb.tb_frame.f_code.co_filename), tb.tb_frame.f_code.co_name))
            tb = tb.tb_next
        here = os.path.realpath(VERIF)
        last_harness = max((i for i, (f, _) in enumerate(frames) if f.startswith(here)), default=-1)
        repo_after = [(f, n) for f, n in frames[last_harness + 1:] if f.startswith(root)]
        if not repo_after:
            return None
        f, n = repo_after[-1]
        return os.path.relpath(f, root) + ":" + n
    except Exception:
        return None


def worker_main(prop, tier, seed, shard, nshards, out_path, intent_path, resume_after, only_case):
    import faulthandler

    faulthandler.enable()
    setup_repo_path()
    os.environ.setdefault("QUANTO_VERIF", "1")
    ctx = Ctx(prop, tier, seed, shard, nshards, intent_path, resume_after, only_case)
    try:
        import torch

        torch.set_num_threads(1)
        mod = importlib.import_module("qv.props." + prop.lower())
        import optimum.quanto as oq

        here = os.path.realpath(os.path.dirname(os.path.dirname(os.path.dirname(oq.__file__))))
        if here != os.path.realpath(REPO):
            ctx.inconclusive(f"quanto imported from {here}, not from {REPO}")
        from qv import reach

        reach.start(REPO)
        try:
            mod.run(ctx)
        finally:
            reach.flush_into(ctx)
            reach.stop()
    except BaseException as e:
        origin = _raised_in_repo(e)
        if origin is not None and not isinstance(e, (KeyboardInterrupt, SystemExit, MemoryError)):
            # The exception was raised by the code under test while a workload (not a guarded probe) was calling it
            # on valid input: that is an observation about the tree, with the current case as witness. The rest of
            # this shard is not explored.
            ctx.violation(dict(prop=prop, kind="uncaught_exception_from_code_under_test", exc=type(e).__name__,
                               where=origin),
                          dict(msg=str(e)[:300], case=getattr(ctx, "case_desc", None),
                               traceback=traceback.format_exc()[-2500:]))
            ctx.count("shards_aborted_by_exception_in_code_under_test")
        else:  # monitor/harness failure => inconclusive, never a verdict
            ctx.inconclusive("harness exception in shard %d: %s: %s\n%s" % (
                shard, type(e).__name__, e, traceback.format_exc()[-3000:]))
    res = ctx.dump()
    tmp = out_path + ".tmp"
    with open(tmp, "w") as f:
        json.dump(res, f)
    os.replace(tmp, out_path)


# ---------------------------------------------------------------------------------------------
# parent side
# ---------------------------------------------------------------------------------------------

def _spawn(prop, tier, seed, shard, nshards, workdir, resume_after=-1, only_case=None, attempt=0, env_extra=None,
           pyflags=()):
    out = os.path.join(workdir, f"shard{shard}.{attempt}.json")
    intent = os.path.join(workdir, f"shard{shard}.{attempt}.intent")
    log = open(os.path.join(workdir, f"shard{shard}.{attempt}.log"), "w")
    env = dict(os.environ)
    env["PYTHONPATH"] = VERIF + os.pathsep + env.get("PYTHONPATH", "")
    env["PYTHONHASHSEED"] = "0"
    env.setdefault("OMP_NUM_THREADS", "1")
    env.setdefault("MKL_NUM_THREADS", "1")
    if env_extra:
        env.update(env_extra)
    cmd = [PY, *pyflags, "-m", "qv.main", "--worker", prop, tier, str(seed), str(shard), str(nshards), out, intent,
           str(resume_after), "" if only_case is None else str(only_case)]
    p = subprocess.Popen(cmd, stdout=log, stderr=subprocess.STDOUT, env=env, cwd=VERIF)
    return {"p": p, "out": out, "intent": intent, "log": log.name, "shard": shard, "attempt": attempt,
            "resume_after": resume_after, "t0": time.time()}


def _last_intent(path):
    last = None
    try:
        with open(path) as f:
            for line in f:
                try:
                    last = json.loads(line)
                except Exception:
                    pass
    except FileNotFoundError:
        pass
    return last


def run_shards(prop, tier, seed, nshards, watchdog_s, only=None, env_extra=None, pyflags=(), max_parallel=16):
    """Run all shards as worker subprocesses. Returns (merged, notes)."""
    workdir = tempfile.mkdtemp(prefix=f"qv_{prop}_")
    results, crash_violations, notes = [], [], []
    pending = list(range(nshards)) if only is None else [only[0]]
    running = []
    try:
        while pending or running:
            while pending and len(running) < max_parallel:
                s = pending.pop(0)
                running.append(_spawn(prop, tier, seed, s, nshards, workdir,
                                      only_case=None if only is None else only[1], env_extra=env_extra,
                                      pyflags=pyflags))
            time.sleep(0.05)
            for r in list(running):
                rc = r["p"].poll()
                if rc is None:
                    if time.time() - r["t0"] > watchdog_s:
                        r["p"].kill()
                        r["p"].wait()
                        running.remove(r)
                        li = _last_intent(r["intent"])
                        notes.append(f"watchdog: shard {r['shard']} exceeded {watchdog_s}s at case {li}")
                        results.append({"counters": {}, "sets": {}, "maxstats": {}, "nontrivial": [], "samples": [],
                                        "violations": [], "inconclusive": [notes[-1]]})
                    continue
                running.remove(r)
                if os.path.exists(r["out"]):
                    with open(r["out"]) as f:
                        results.append(json.load(f))
                    if rc != 0:
                        notes.append(f"shard {r['shard']} wrote its result but exited {rc}")
                    continue
                # died without result: crash containment
                li = _last_intent(r["intent"])
                tail = ""
                try:
                    with open(r["log"]) as f:
                        tail = f.read()[-2500:]
                except Exception:
                    pass
                signame = str(rc)
                if rc < 0:
                    try:
                        signame = signal.Signals(-rc).name
                    except Exception:
                        pass
                if li is None or r["attempt"] >= 40:
                    results.append({"counters": {}, "sets": {}, "maxstats": {}, "nontrivial": [], "samples": [],
                                    "violations": [],
                                    "inconclusive": [f"shard {r['shard']} died ({signame}) before any case / too "
                                                     f"many restarts: {tail[-800:]}"]})
                    continue
                frames = [ln.strip() for ln in tail.splitlines() if "optimum/quanto" in ln and "File" in ln]
                site = frames[0] if frames else "?"
                crash_violations.append({
                    "sig": {"kind": "crash", "signal": signame, "site": _crash_site(site),
                            "class": _crash_class(li.get("desc"))},
                    "detail": {"log_tail": tail[-1500:], "intent": li},
                    "case": {"shard": r["shard"], "nshards": nshards, "index": li["i"], "desc": li.get("desc")},
                })
                # partial observations of the dead worker are lost; restart after the crashing case
                if only is None:
                    running.append(_spawn(prop, tier, seed, r["shard"], nshards, workdir, resume_after=li["i"],
                                          attempt=r["attempt"] + 1, env_extra=env_extra, pyflags=pyflags))
    finally:
        for r in running:
            try:
                r["p"].kill()
            except Exception:
                pass
        import shutil

        shutil.rmtree(workdir, ignore_errors=True)
    m = merge(results)
    for cv in crash_violations:
        cv["sig"] = {k: str(v) for k, v in cv["sig"].items()}
        cv["key"] = _h(sorted(cv["sig"].items()))
        m["violations"].append(cv)
        m["counters"]["sig:" + cv["key"]] = m["counters"].get("sig:" + cv["key"], 0) + 1
        m["counters"]["crashes"] = m["counters"].get("crashes", 0) + 1
    return m, notes


def _crash_site(frame_line):
    # 'File "/repo/optimum/quanto/library/qbytes_mm.py", line 57 in qbytes_int8pack_mm' -> function name
    parts = frame_line.split(" in ")
    return parts[-1].strip() if len(parts) > 1 else frame_line[-80:]


def _crash_class(desc):
    if isinstance(desc, dict):
        return str(desc.get("crash_class", desc.get("kind", "?")))
    return "?"


# ---------------------------------------------------------------------------------------------
# known findings
# ---------------------------------------------------------------------------------------------

def load_known():
    p = os.path.join(VERIF, "known_findings.json")
    if not os.path.exists(p):
        return {"open": [], "fixed": []}
    with open(p) as f:
        return json.load(f)


def match_known(sig, prop, known):
    import re

    for e in known.get("open", []):
        if e.get("property") != prop:
            continue
        ok = True
        for k, want in e.get("match", {}).items():
            got = sig.get(k)
            if got is None:
                ok = False
            elif isinstance(want, list):
                ok = got in [str(w) for w in want]
            elif isinstance(want, str) and want.startswith("re:"):
                ok = re.search(want[3:], got) is not None
            else:
                ok = got == str(want)
            if not ok:
                break
        if ok:
            return e
    return None


# ---------------------------------------------------------------------------------------------
# verdict + evidence
# ---------------------------------------------------------------------------------------------

def validate_evidence(ev):
    req = ["property_id", "tier", "seed", "level", "coverage", "wall_s"]
    for k in req:
        assert k in ev, f"evidence lacks {k}"
    assert ev["tier"] in ("quick", "thorough")
    assert isinstance(ev["seed"], int)
    c = ev["coverage"]
    assert isinstance(c.get("evaluations"), int) and c["evaluations"] >= 1, "evaluations"
    assert isinstance(c.get("distinct_nontrivial"), int) and c["distinct_nontrivial"] >= 2, "distinct_nontrivial"
    assert isinstance(c.get("rule"), str)
    assert isinstance(c.get("samples"), list) and len(c["samples"]) >= 1, "samples"


def conclude(prop, tier, seed, meta, m, notes, t0, replay_mode=False):
    """Classify violations, decide the verdict, print the contract lines, write evidence. Returns exit code."""
    known = load_known()
    os.makedirs(os.path.join(OUT, "evidence"), exist_ok=True)
    replay_dir = os.path.join(OUT, "replay", prop)
    out_lines = []
    kf_hits, new_viol = {}, {}
    seen_keys = set()
    for v in m["violations"]:
        e = match_known(v["sig"], prop, known)
        if e is not None:
            h = kf_hits.setdefault(e["id"], {"entry": e, "n": 0, "first": v})
            if v["key"] not in seen_keys:
                h["n"] += m["counters"].get("sig:" + v["key"], 1)
        else:
            new_viol.setdefault(v["key"], v)
        seen_keys.add(v["key"])
    inconcl = list(m["inconclusive"]) + [n for n in notes if n.startswith("watchdog")]
    # minimum-observation gates
    evals = m["counters"].get(meta.get("evaluations_counter", "cases"), 0)
    if not replay_mode:
        mins = meta.get("min", {})
        mins = mins.get(tier, mins) if isinstance(mins.get(tier, None), dict) else mins
        for cname, cmin in mins.items():
            if isinstance(cmin, dict):
                continue
            if m["counters"].get(cname, 0) < cmin:
                inconcl.append(f"counter {cname}={m['counters'].get(cname, 0)} below minimum {cmin}")
        for a in meta.get("anchors", []):
            if m["counters"].get("reach:" + a, 0) == 0:
                inconcl.append(f"public entry point never entered: {a}")

    for key, v in new_viol.items():
        os.makedirs(replay_dir, exist_ok=True)
        path = os.path.join(replay_dir, key[:16] + ".json")
        with open(path, "w") as f:
            json.dump({"property": prop, "tier": tier, "seed": seed, "sig": v["sig"], "detail": v["detail"],
                       "case": v["case"], "count": m["counters"].get("sig:" + key, 1)}, f, indent=1)
        out_lines.append(f"VIOLATION property={prop} replay={path}")
        out_lines.append("  signature: " + json.dumps(v["sig"], sort_keys=True))
    for kid, h in kf_hits.items():
        os.makedirs(replay_dir, exist_ok=True)
        path = os.path.join(replay_dir, "known_" + kid + ".json")
        v = h["first"]
        with open(path, "w") as f:
            json.dump({"property": prop, "tier": tier, "seed": seed, "known_finding": kid, "sig": v["sig"],
                       "detail": v["detail"], "case": v["case"]}, f, indent=1)
        out_lines.append(f"KNOWN-FINDING: property={prop} {kid}: {h['entry'].get('mechanism', '')}")
    silent = [e["id"] for e in known.get("open", []) if e.get("property") == prop and e["id"] not in kf_hits]

    if new_viol:
        verdict, code = "violated", EXIT_VIOLATED
    elif inconcl:
        verdict, code = "inconclusive", EXIT_INCONCLUSIVE
        out_lines.append(f"INCONCLUSIVE property={prop} reason={inconcl[0][:400]!r}")
    else:
        verdict, code = "held", EXIT_HELD

    counters = {k: v for k, v in m["counters"].items() if not k.startswith("sig:")}
    nd = len(m["nontrivial"])
    coverage = {
        "evaluations": int(max(evals, 0)),
        "distinct_nontrivial": int(nd),
        "rule": meta.get("rule", ""),
        "samples": m["samples"][:8] if m["samples"] else [],
        "counters": counters,
        "observed": {k: (sorted(v, key=repr) if len(v) <= 200 else {"n": len(v), "first": sorted(v, key=repr)[:60]})
                     for k, v in m["sets"].items()},
        "max_ratio_observed": m["maxstats"],
        "verdict": verdict,
        "known_findings_hit": {k: h["n"] for k, h in kf_hits.items()},
        "known_findings_silent": silent,
        "inconclusive_reasons": inconcl[:10],
        "notes": notes[:10],
    }
    if meta.get("exhaustive_note"):
        coverage["exhaustive_subspaces"] = meta["exhaustive_note"]
    ev = {
        "property_id": prop,
        "tier": tier if tier in ("quick", "thorough") else "quick",
        "seed": int(seed),
        "level": meta.get("level", "exploration"),
        "coverage": coverage,
        "assumptions": meta.get("assumptions", []),
        "wall_s": round(time.time() - t0, 2),
        "violations": len(new_viol),
    }
    if not replay_mode:
        try:
            validate_evidence(ev)
        except AssertionError as e:
            if code == EXIT_HELD:
                code, verdict = EXIT_INCONCLUSIVE, "inconclusive"
                out_lines.append(f"INCONCLUSIVE property={prop} reason='evidence invalid: {e}'")
                ev["coverage"]["verdict"] = verdict
        with open(os.path.join(OUT, "evidence", prop + ".json"), "w") as f:
            json.dump(ev, f, indent=1, sort_keys=True)
        # a per-tier copy, so that the last thorough run stays available next to the (registered) latest run
        with open(os.path.join(OUT, "evidence", f"{prop}.{ev['tier']}.json"), "w") as f:
            json.dump(ev, f, indent=1, sort_keys=True)
    for ln in out_lines:
        print(ln)
    print(f"[{prop}] tier={tier} seed={seed} verdict={verdict} evaluations={evals} distinct_nontrivial={nd} "
          f"new_violations={len(new_viol)} known_hit={sorted(kf_hits)} wall={time.time() - t0:.1f}s")
    brief = {k: v for k, v in counters.items() if not k.startswith("reach:")}
    print(f"[{prop}] counters: " + json.dumps(brief, sort_keys=True)[:1500])
    if m["maxstats"]:
        print(f"[{prop}] max ratios: " + json.dumps(m["maxstats"], sort_keys=True)[:800])
    for r in inconcl[:5]:
        print(f"[{prop}] inconclusive: {r[:1500]}")
    return code
