"""Run the repository's own test-suite under the dispatch monitor (thorough tiers of C05 / C06)."""

import json
import os
import subprocess
import tempfile

from qv import runner


def run_suite_under_monitor(ctx, prop, paths=("test/tensor", "test/nn", "test/model", "test/library"), timeout=1500):
    fd, out = tempfile.mkstemp(suffix=".json", prefix="qv_suite_")
    os.close(fd)
    os.unlink(out)
    env = dict(os.environ)
    env.update(QV_PLUGIN_OUT=out, QV_PLUGIN_PROP=prop, PYTHONPATH=runner.REPO + os.pathsep + runner.VERIF, PYTHONHASHSEED="0")
    env.pop("LD_PRELOAD", None)
    cmd = [runner.PY, "-m", "pytest", "-q", "-x", "--maxfail=100000", "-p", "qv.pytest_plugin", "-p", "no:cacheprovider",
           "--timeout=900", "--deselect", "test/tensor/test_compile.py", *paths]
    cmd.remove("-x")
    try:
        r = subprocess.run(cmd, cwd=runner.REPO, env=env, stdout=subprocess.PIPE, stderr=subprocess.STDOUT, text=True,
                           timeout=timeout)
        tail = r.stdout.strip().splitlines()[-1] if r.stdout.strip() else ""
    except subprocess.TimeoutExpired:
        ctx.inconclusive("repository test-suite under the monitor timed out")
        return
    if not os.path.exists(out):
        ctx.inconclusive("repository test-suite under the monitor wrote no result: " + tail[:200])
        return
    with open(out) as f:
        res = json.load(f)
    os.unlink(out)
    ctx.see("suite_summary", tail[:120])
    for k, v in res["counters"].items():
        if k.startswith("sig:"):
            ctx.counters[k] = ctx.counters.get(k, 0) + v
        elif not k.startswith("reach:"):
            ctx.counters["suite:" + k] = ctx.counters.get("suite:" + k, 0) + v
    for v in res["violations"]:
        v["sig"]["source"] = "repo_test_suite"
        v["key"] = runner._h(sorted(v["sig"].items()))
        ctx.violations.append(v)
        ctx.counters["sig:" + v["key"]] = ctx.counters.get("sig:" + v["key"], 0) + 1
    for name, vals in res["sets"].items():
        for x in vals:
            ctx.see("suite:" + name, x)
