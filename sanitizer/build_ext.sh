#!/bin/bash
# ASan/UBSan build of the working tree's C++ extension (unpack.cpp + pybind_module.cpp).
# usage: build_ext.sh <repo> ; prints the path of the .so ; cache keyed by hash(sources, torch version, flags)
set -e
REPO="${1:-/repo}"
SRC="$REPO/optimum/quanto/library/ext/cpp"
HERE="$(dirname "$(readlink -f "$0")")"
CACHE="${QV_CACHE:-$HERE/../.cache}/asan"
PY=/venv/bin/python
FLAGS="-std=c++20 -O1 -g -fPIC -fno-omit-frame-pointer -fsanitize=address,undefined -fno-sanitize-recover=all -shared-libasan"
TV=$($PY -c "import torch;print(torch.__version__)")
KEY=$( (cat "$SRC"/unpack.cpp "$SRC"/unpack.h "$SRC"/pybind_module.cpp; echo "$TV $FLAGS") | sha256sum | cut -c1-16)
OUT="$CACHE/$KEY"
SO="$OUT/quanto_cpp_asan.so"
if [ -f "$SO" ]; then echo "$SO"; exit 0; fi
mkdir -p "$OUT"
INC=$($PY - <<'P'
import sysconfig
from torch.utils.cpp_extension import include_paths
print(" ".join("-isystem " + p for p in include_paths() + [sysconfig.get_paths()["include"]]))
P
)
LIB=$($PY -c "import torch,os;print(os.path.join(os.path.dirname(torch.__file__),'lib'))")
DEFS="-DTORCH_EXTENSION_NAME=quanto_cpp_asan -DTORCH_API_INCLUDE_EXTENSION_H -D_GLIBCXX_USE_CXX11_ABI=$($PY -c 'import torch;print(int(torch._C._GLIBCXX_USE_CXX11_ABI))')"
( clang++-14 $FLAGS $DEFS $INC -c "$SRC/unpack.cpp" -o "$OUT/unpack.o" ) &
P1=$!
( clang++-14 $FLAGS $DEFS $INC -c "$SRC/pybind_module.cpp" -o "$OUT/pybind_module.o" ) &
P2=$!
wait $P1; wait $P2
clang++-14 -shared $FLAGS "$OUT/unpack.o" "$OUT/pybind_module.o" -L"$LIB" -lc10 -ltorch_cpu -ltorch -ltorch_python -Wl,-rpath,"$LIB" -o "$SO.tmp"
mv "$SO.tmp" "$SO"
rm -f "$OUT"/*.o
echo "$SO"
