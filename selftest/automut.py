#!/usr/bin/env python3
"""Systematic mutation campaign (self-test of the monitors, not part of any registered check).

Generates first-order mutants of optimum/quanto/**/*.py with the ast module (comparison / arithmetic / boolean
operator swaps, constant tweaks, negated conditions, dropped `not`/unary minus, deleted call / augmented-assignment
statements), applies each one to a scratch copy of the repo outside /repo and /verif, and runs the quick tier of the
checks that own the mutated file until one of them reports a violation.  Survivors are written to
selftest/automut_survivors.json for manual triage (equivalent mutant / unreachable code / genuine gap in a check).

usage: selftest/automut.py list                      # print the number of sites per file
       selftest/automut.py run [--n N] [--seed S] [--jobs J] [--files substr,...] [--all-props] [--out file]
       selftest/automut.py suite <results.json>      # run the repository's own tests on the survivors
"""
import ast
import concurrent.futures as cf
import hashlib
import json
import os
import random
import re
import shutil
import subprocess
import sys
import tempfile
import time

HERE = os.path.dirname(os.path.abspath(__file__))
V = os.path.dirname(HERE)
REPO = os.environ.get("QV_REPO", "/repo")
PKG = "optimum/quanto"

# file (prefix) -> ordered list of owning checks.  The first ones are the most likely to notice.
OWNERS = [
    ("calibrate.py", ["C12", "C13", "C03", "C16", "C08"]),
    ("quantize.py", ["C08", "C09", "C10", "C13"]),
    ("serialization.py", ["C10"]),
    ("nn/qmodule.py", ["C08", "C09", "C10", "C12", "C13", "C11", "C14"]),
    ("nn/qlinear.py", ["C08", "C07", "C11", "C14"]),
    ("nn/qconv2d.py", ["C08", "C14", "C11"]),
    ("nn/qlayernorm.py", ["C08", "C12", "C13"]),
    ("library/ops.py", ["C04", "C01", "C02", "C07"]),
    ("library/python/unpack.py", ["C04"]),
    ("library/ext/cpp/__init__.py", ["C04"]),
    ("library/ext/extension.py", ["C04"]),
    ("library/ext/__init__.py", ["C04"]),
    ("library/qbytes_mm.py", ["C07", "C05", "C08"]),
    ("tensor/core.py", ["C03", "C16", "C01", "C05"]),
    ("tensor/optimizers/", ["C03", "C16", "C02", "C14"]),
    ("tensor/qactivation.py", ["C14", "C01", "C12", "C05"]),
    ("tensor/qbits/awq/", ["C15"]),
    ("tensor/qbits/group.py", ["C02", "C03", "C06", "C09"]),
    ("tensor/qbits/packed.py", ["C04", "C06", "C09", "C10"]),
    ("tensor/qbits/qbits.py", ["C02", "C06", "C05", "C09", "C10", "C15"]),
    ("tensor/qbits/qbits_ops.py", ["C05", "C06", "C07", "C09"]),
    ("tensor/qbytes.py", ["C01", "C06", "C05", "C10", "C09"]),
    ("tensor/qbytes_ops.py", ["C05", "C06", "C07", "C11"]),
    ("tensor/qtensor.py", ["C05", "C06", "C10", "C09"]),
    ("tensor/qtensor_func.py", ["C05", "C07", "C06", "C11"]),
    ("tensor/qtype.py", ["C01", "C14", "C06", "C10"]),
    ("tensor/quantizers/affine.py", ["C02", "C14", "C11", "C16"]),
    ("tensor/quantizers/symmetric.py", ["C01", "C14", "C11", "C16"]),
    ("tensor/qweight.py", ["C14", "C03", "C02", "C16"]),
]
SKIP = ("library/ext/cuda", "library/ext/mps", "__init__.py")
KEEP_INIT = ("library/ext/cpp/__init__.py", "library/ext/__init__.py")
ALL = [f"C{i:02d}" for i in range(1, 17)]

CMP = {ast.Lt: "<=", ast.LtE: "<", ast.Gt: ">=", ast.GtE: ">", ast.Eq: "!=", ast.NotEq: "==", ast.Is: "is not",
       ast.IsNot: "is", ast.In: "not in", ast.NotIn: "in"}
CMP_TXT = {ast.Lt: "<", ast.LtE: "<=", ast.Gt: ">", ast.GtE: ">=", ast.Eq: "==", ast.NotEq: "!=", ast.Is: "is",
           ast.IsNot: "is not", ast.In: "in", ast.NotIn: "not in"}
BIN = {ast.Add: ("+", "-"), ast.Sub: ("-", "+"), ast.Mult: ("*", "/"), ast.Div: ("/", "*"), ast.FloorDiv: ("//", "*"),
       ast.Mod: ("%", "//")}


def owners(rel):
    for pre, props in OWNERS:
        if rel.startswith(pre):
            return props
    return None


class Src:
    def __init__(self, text):
        self.text = text
        self.lines = text.split("\n")
        self.off = [0]
        for ln in self.lines:
            self.off.append(self.off[-1] + len(ln) + 1)

    def pos(self, lineno, col):
        # ast columns are utf-8 byte offsets; sources are ascii in practice
        return self.off[lineno - 1] + col

    def span(self, node):
        return self.pos(node.lineno, node.col_offset), self.pos(node.end_lineno, node.end_col_offset)

    def seg(self, a, b):
        return self.text[a:b]


def sites(rel, text):
    src = Src(text)
    tree = ast.parse(text)
    out = []
    skip_ranges = []
    parents = {}
    for n in ast.walk(tree):
        for c in ast.iter_child_nodes(n):
            parents[c] = n

    def qual(n):
        names = []
        while n in parents:
            n = parents[n]
            if isinstance(n, (ast.FunctionDef, ast.ClassDef, ast.AsyncFunctionDef)):
                names.append(n.name)
        return ".".join(reversed(names)) or "<module>"

    def in_skipped(n):
        p = n
        while p in parents:
            p = parents[p]
            if isinstance(p, (ast.Raise, ast.Assert, ast.Import, ast.ImportFrom)):
                return True
            if isinstance(p, ast.FunctionDef) and p.name in ("__repr__", "__str__"):
                return True
            if isinstance(p, ast.Call) and isinstance(p.func, ast.Attribute) and p.func.attr in ("warn", "warning"):
                return True
        return False

    def add(kind, a, b, new, node):
        old = src.seg(a, b)
        if old == new:
            return
        out.append(dict(file=rel, kind=kind, a=a, b=b, old=old, new=new, line=node.lineno, func=qual(node)))

    for n in ast.walk(tree):
        if not hasattr(n, "lineno") or in_skipped(n):
            continue
        if isinstance(n, ast.Compare) and len(n.ops) == 1 and type(n.ops[0]) in CMP:
            a = src.span(n.left)[1]
            b = src.span(n.comparators[0])[0]
            mid = src.seg(a, b)
            t = CMP_TXT[type(n.ops[0])]
            if mid.count(t) >= 1 and "(" not in mid and ")" not in mid:
                i = mid.index(t)
                add("cmp", a + i, a + i + len(t), CMP[type(n.ops[0])], n)
        elif isinstance(n, ast.BinOp) and type(n.op) in BIN:
            if isinstance(n.left, ast.Constant) and isinstance(n.left.value, str):
                continue  # string formatting
            a = src.span(n.left)[1]
            b = src.span(n.right)[0]
            mid = src.seg(a, b)
            t, new = BIN[type(n.op)]
            m = re.fullmatch(r"([\s)]*)" + re.escape(t) + r"([\s(]*)", mid)
            if m:
                i = len(m.group(1))
                add("bin", a + i, a + i + len(t), new, n)
        elif isinstance(n, ast.BoolOp) and len(n.values) == 2:
            a = src.span(n.values[0])[1]
            b = src.span(n.values[1])[0]
            mid = src.seg(a, b)
            t = "and" if isinstance(n.op, ast.And) else "or"
            m = re.search(r"\b" + t + r"\b", mid)
            if m and "(" not in mid and ")" not in mid:
                add("bool", a + m.start(), a + m.end(), "or" if t == "and" else "and", n)
        elif isinstance(n, ast.UnaryOp) and isinstance(n.op, ast.Not):
            a, b = src.span(n)
            oa, ob = src.span(n.operand)
            add("dropnot", a, b, "(" + src.seg(oa, ob) + ")", n)
        elif isinstance(n, ast.UnaryOp) and isinstance(n.op, ast.USub) and not isinstance(n.operand, ast.Constant):
            a, b = src.span(n)
            oa, ob = src.span(n.operand)
            add("dropneg", a, b, "(" + src.seg(oa, ob) + ")", n)
        elif isinstance(n, ast.Constant) and type(n.value) in (int, float) and not isinstance(n.value, bool):
            p = parents.get(n)
            if isinstance(p, (ast.Subscript,)) and False:
                continue
            a, b = src.span(n)
            v = n.value
            if isinstance(p, ast.UnaryOp) and isinstance(p.op, ast.USub):
                # -1 -> -2 (and 0 for axis like constants)
                add("const", a, b, repr(v + 1), n)
                continue
            if type(v) is int:
                add("const", a, b, repr(1 if v == 0 else v - 1 if v == 1 else v + 1), n)
            else:
                add("const", a, b, repr(v * 2 if v else 1.0), n)
        elif isinstance(n, ast.Constant) and isinstance(n.value, bool):
            p = parents.get(n)
            if isinstance(p, ast.keyword) or isinstance(p, (ast.Return, ast.Assign)):
                a, b = src.span(n)
                add("boolconst", a, b, repr(not n.value), n)
        elif isinstance(n, (ast.If, ast.While, ast.IfExp)):
            a, b = src.span(n.test)
            add("negcond", a, b, "(not (" + src.seg(a, b) + "))", n)
        elif isinstance(n, ast.Expr) and isinstance(n.value, ast.Call):
            a, b = src.span(n)
            f = n.value.func
            name = f.attr if isinstance(f, ast.Attribute) else getattr(f, "id", "")
            if name in ("__init__", "register_buffer", "register_library", "define", "print", "warn"):
                continue
            add("delcall", a, b, "pass", n)
        elif isinstance(n, ast.AugAssign):
            a, b = src.span(n)
            add("delaug", a, b, "pass", n)
        elif isinstance(n, ast.Return) and n.value is not None and isinstance(parents.get(n), ast.If):
            # early-return guard bodies: `if cond: return X` -> drop the guard by negating (already covered by negcond)
            pass
    # de-duplicate and give stable ids
    seen = set()
    res = []
    for s in out:
        k = (s["a"], s["b"], s["new"])
        if k in seen:
            continue
        seen.add(k)
        s["id"] = "A" + hashlib.sha1(f"{rel}:{s['a']}:{s['b']}:{s['new']}:{s['old']}".encode()).hexdigest()[:8]
        res.append(s)
    return res


def all_sites(filters=None):
    res = []
    root = os.path.join(REPO, PKG)
    for dp, dn, fn in os.walk(root):
        for f in sorted(fn):
            if not f.endswith(".py"):
                continue
            rel = os.path.relpath(os.path.join(dp, f), root)
            if any(rel.startswith(s) or rel.endswith(s) for s in SKIP) and rel not in KEEP_INIT:
                continue
            if owners(rel) is None:
                continue
            if filters and not any(x in rel for x in filters):
                continue
            text = open(os.path.join(dp, f)).read()
            res.extend(sites(rel, text))
    return res


def run_one(s, all_props, tier):
    d = tempfile.mkdtemp(prefix="qvauto_" + s["id"] + "_", dir="/tmp")
    rec = dict(s)
    try:
        subprocess.run(["rsync", "-a", "--exclude", ".git", "--exclude", "build", REPO + "/", d + "/"], check=True)
        p = os.path.join(d, PKG, s["file"])
        text = open(p).read()
        assert text[s["a"]:s["b"]] == s["old"], "site drifted"
        new = text[:s["a"]] + s["new"] + text[s["b"]:]
        try:
            compile(new, p, "exec")
        except SyntaxError as e:
            rec.update(status="SYNTAX", detail=str(e))
            return rec
        open(p, "w").write(new)
        # import smoke: a mutant that cannot even be imported is caught by anything
        r = subprocess.run(["/venv/bin/python", "-c", "import optimum.quanto"], cwd=d, stdout=subprocess.PIPE,
                           stderr=subprocess.STDOUT, text=True, env=dict(os.environ, PYTHONPATH=d))
        if r.returncode != 0:
            rec.update(status="IMPORT-FAILS", detail=r.stdout[-300:])
            return rec
        props = list(owners(s["file"]))
        if all_props:
            props += [p_ for p_ in ALL if p_ not in props]
        tried = []
        for prop in props:
            env = dict(os.environ, QV_REPO=d, QV_OUT=os.path.join(d, ".qvout"), QV_CACHE=os.path.join(d, ".qvcache"))
            t0 = time.time()
            r = subprocess.run([os.path.join(V, "check"), prop, tier], stdout=subprocess.PIPE, stderr=subprocess.STDOUT,
                               text=True, env=env)
            viol = [ln for ln in r.stdout.splitlines() if ln.startswith("VIOLATION")]
            sigs = [ln.strip()[:300] for ln in r.stdout.splitlines() if ln.strip().startswith("signature:")]
            tried.append((prop, r.returncode, round(time.time() - t0)))
            if r.returncode == 1 and viol:
                rec.update(status="CAUGHT", by=prop, sigs=sigs[:2], tried=tried)
                return rec
            if r.returncode not in (0, 1, 2):
                rec.update(status="CAUGHT-CRASH", by=prop, detail=r.stdout[-400:], tried=tried)
                return rec
        rec.update(status="SURVIVED", tried=tried)
        return rec
    except Exception as e:  # noqa
        rec.update(status="ERROR", detail=repr(e))
        return rec
    finally:
        shutil.rmtree(d, ignore_errors=True)


def main():
    args = sys.argv[1:]
    cmd = args[0] if args else "list"

    def opt(name, default=None):
        if name in args:
            return args[args.index(name) + 1]
        return default

    filters = opt("--files")
    filters = filters.split(",") if filters else None
    ss = all_sites(filters)
    if cmd == "list":
        by = {}
        for s in ss:
            by.setdefault(s["file"], {}).setdefault(s["kind"], 0)
            by[s["file"]][s["kind"]] += 1
        for f in sorted(by):
            print(f"{sum(by[f].values()):4d} {f} {by[f]}")
        print(len(ss), "sites")
        return 0
    if cmd == "run":
        n = int(opt("--n", "100"))
        seed = int(opt("--seed", "0"))
        jobs = int(opt("--jobs", "2"))
        tier = opt("--tier", "quick")
        out = opt("--out", os.path.join(HERE, "automut_results.json"))
        done = {}
        if os.path.exists(out):
            for r in json.load(open(out)):
                done[r["id"]] = r
        rnd = random.Random(seed)
        # stratified: round-robin over files so small files are represented
        by = {}
        for s in ss:
            by.setdefault(s["file"], []).append(s)
        for f in by:
            rnd.shuffle(by[f])
        pick = []
        files = sorted(by)
        while len(pick) < n and any(by.values()):
            for f in files:
                if by[f] and len(pick) < n:
                    pick.append(by[f].pop())
        pick = [s for s in pick if s["id"] not in done]
        print(f"{len(ss)} sites, running {len(pick)} new mutants ({len(done)} already recorded) jobs={jobs}", flush=True)
        results = list(done.values())
        with cf.ThreadPoolExecutor(jobs) as ex:
            futs = [ex.submit(run_one, s, "--all-props" in args, tier) for s in pick]
            for fu in cf.as_completed(futs):
                r = fu.result()
                results.append(r)
                print(r["status"], r["id"], r["file"], "L%d" % r["line"], r["kind"], repr(r["old"]), "->", repr(r["new"]),
                      r.get("by", ""), r.get("tried", ""), flush=True)
                with open(out + ".tmp", "w") as f:
                    json.dump(results, f, indent=1)
                os.replace(out + ".tmp", out)
        surv = [r for r in results if r["status"] == "SURVIVED"]
        print(f"\n{len(results)} mutants: " + ", ".join(
            f"{k}={sum(1 for r in results if r['status'] == k)}" for k in sorted({r['status'] for r in results})))
        with open(os.path.join(HERE, "automut_survivors.json"), "w") as f:
            json.dump(surv, f, indent=1)
        return 0
    if cmd == "retest":
        # re-run recorded mutants (by id, or every SURVIVED/ERROR one with "all") against all checks; sites are re-located
        # by (file, kind, old, new, line) because offsets drift when /repo receives fixes
        out = opt("--out", os.path.join(HERE, "automut_results.json"))
        res = json.load(open(out))
        ids = [a for a in args[1:] if a.startswith("A")]
        todo = [r for r in res if (r["id"] in ids) or ("all" in args and r["status"] in ("SURVIVED", "ERROR"))]
        cur = {}
        for s_ in ss:
            cur.setdefault((s_["file"], s_["kind"], s_["old"], s_["new"]), []).append(s_)
        for r in todo:
            cands = cur.get((r["file"], r["kind"], r["old"], r["new"]), [])
            if not cands:
                print("GONE", r["id"], r["file"], r["line"], flush=True)
                r["status"] = "GONE"
                continue
            site = min(cands, key=lambda c: abs(c["line"] - r["line"]))
            rr = run_one(dict(site, id=r["id"]), True, opt("--tier", "quick"))
            r.update(status=rr["status"], by=rr.get("by"), tried=rr.get("tried"), sigs=rr.get("sigs"), a=site["a"], b=site["b"],
                     line=site["line"], retested=True)
            print(rr["status"], r["id"], r["file"], "L%d" % site["line"], r["kind"], repr(r["old"][:40]), "->", repr(r["new"][:40]),
                  rr.get("by", ""), rr.get("tried", ""), flush=True)
            json.dump(res, open(out, "w"), indent=1)
        return 0
    if cmd == "suite":
        res = json.load(open(args[1]))
        for r in res:
            if r["status"] != "SURVIVED" or "suite_ok" in r:
                continue
            d = tempfile.mkdtemp(prefix="qvauto_s_" + r["id"] + "_", dir="/tmp")
            try:
                subprocess.run(["rsync", "-a", "--exclude", ".git", "--exclude", "build", REPO + "/", d + "/"], check=True)
                p = os.path.join(d, PKG, r["file"])
                text = open(p).read()
                open(p, "w").write(text[:r["a"]] + r["new"] + text[r["b"]:])
                q = subprocess.run([sys.executable, os.path.join(V, "tools", "baseline.py"), d], stdout=subprocess.PIPE,
                                   text=True)
                r["suite_ok"] = q.returncode == 0
                print(r["id"], r["file"], r["line"], r["old"], "->", r["new"], "suite_ok=", r["suite_ok"], flush=True)
            finally:
                shutil.rmtree(d, ignore_errors=True)
            json.dump(res, open(args[1], "w"), indent=1)
        return 0


if __name__ == "__main__":
    sys.exit(main())
