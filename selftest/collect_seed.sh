#!/bin/bash
# usage: collect_seed.sh <Cnn> <suffix e.g. a3> <agent outdir root e.g. /tmp/seeded_out3> <worktree prefix e.g. /tmp/wt3_> [extra props expected to catch]
p=$1; suf=$2; root=$3; wt=$4; shift 4; extra="$@"
d=/verif/seeded/${p}-${suf}; mkdir -p $d; cp $root/$p/patch.diff $root/$p/demo.py $d/; cp $root/$p/meta.json $d/agent_meta.json
git -C /repo worktree remove --force ${wt}${p} 2>/dev/null
python3 - "$p" "$suf" $extra <<'PY'
import json,sys
p,suf=sys.argv[1:3]; extra=sys.argv[3:]
d=f'/verif/seeded/{p}-{suf}'
a=json.load(open(d+'/agent_meta.json'))
m={"property":p,"summary":a.get("summary"),"what_it_needs_to_manifest":a.get("manifests_when"),"files_changed":a.get("files_changed"),
   "origin":"independent sub-agent given only the property text, a scratch worktree and (for later rounds) what the earlier seeded changes were",
   "agent_reported":{"test_suite_result":a.get("test_suite_result"),"demo_with_change_exit":a.get("demo_with_change_exit"),"demo_without_change_exit":a.get("demo_without_change_exit")},
   "demo":"demo.py","demo_pyflags":["-O"] if p=="C15" else [],"checks_expected":[p]+extra,"confirmed_by_me":None,"caught_by":None}
json.dump(m,open(d+'/meta.json','w'),indent=1)
PY
cd /verif && python3 selftest/seeded.py --demo ${p}-${suf} 2>&1 | grep -E "^\('C|caught|PATCH" | cut -c1-330
