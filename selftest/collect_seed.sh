#!/bin/bash
# usage: collect2.sh Cnn [extra props]
p=$1; shift; extra="$@"
d=/verif/seeded/${p}-a2; mkdir -p $d; cp /tmp/seeded_out2/$p/patch.diff /tmp/seeded_out2/$p/demo.py $d/; cp /tmp/seeded_out2/$p/meta.json $d/agent_meta.json; git -C /repo worktree remove --force /tmp/wt2_$p 2>/dev/null
python3 - "$p" $extra <<'PY'
import json,sys
p=sys.argv[1]; extra=sys.argv[2:]
d=f'/verif/seeded/{p}-a2'
a=json.load(open(d+'/agent_meta.json'))
m={"property":p,"summary":a.get("summary"),"what_it_needs_to_manifest":a.get("manifests_when"),"files_changed":a.get("files_changed"),
   "origin":"independent sub-agent (second round: told only the property text and what the first seeded change was)",
   "agent_reported":{"test_suite_result":a.get("test_suite_result"),"demo_with_change_exit":a.get("demo_with_change_exit"),"demo_without_change_exit":a.get("demo_without_change_exit")},
   "demo":"demo.py","demo_pyflags":["-O"] if p=="C15" else [],"checks_expected":[p]+extra,"confirmed_by_me":None,"caught_by":None}
json.dump(m,open(d+'/meta.json','w'),indent=1)
PY
cd /verif && python3 selftest/seeded.py --demo ${p}-a2 2>&1 | grep -E "^\('C|caught|PATCH" | cut -c1-330
