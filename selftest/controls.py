"""Property-preserving changes: every listed check must still exit 0 on them (no false alarm on code where the property holds)."""

Q = "optimum/quanto/"

CONTROLS = [
    dict(id="K1", file=Q + "library/qbytes_mm.py", old="    if activations.dtype == torch.bfloat16 and weights.dtype == torch.int8 and in_features % 4 == 0:",
         new="    if False:", props=["C07", "C05", "C08"], note="int8pack route never selected (float fallback instead)"),
    dict(id="K2", file=Q + "tensor/quantizers/symmetric.py", old="            data = torch.round(data)", new="            data = torch.floor(data + 0.5)",
         props=["C01", "C14", "C16"], note="round half up instead of half to even: still a nearest grid point"),
    dict(id="K3", file=Q + "tensor/qbytes.py", old="            dqt = t._scale * t._data\n", new="            dqt = t._scale * t._data.to(t._scale.dtype)\n",
         props=["C01", "C05", "C06"], note="explicit upcast of integer codes before scaling"),
    dict(id="K4", file=Q + "calibrate.py", old="        try:\n            super().__exit__(exc_type, exc_val, exc_tb)\n        finally:\n            pre_handle, post_handle = self.handles.pop()\n            pre_handle.remove()\n            post_handle.remove()",
         new="        pre_handle, post_handle = self.handles.pop()\n        pre_handle.remove()\n        post_handle.remove()\n        super().__exit__(exc_type, exc_val, exc_tb)",
         props=["C13", "C12"], note="hooks removed before leaving the function mode"),
    dict(id="K5", file=Q + "tensor/qbytes_ops.py", old="            and n > 16\n            and n % 8 == 0", new="            and n > 1 << 30\n            and n % 8 == 0",
         props=["C05", "C07"], note="integer GEMM path of aten.mm never taken"),
    dict(id="K6", file=Q + "nn/qmodule.py", old="        qweight = self.qweight\n        if qweight is not None:", new="        with torch.no_grad():\n            qweight = self.qweight\n        if qweight is not None:",
         props=["C09", "C11"], note="freeze under no_grad"),
    dict(id="K7", file=Q + "tensor/qbits/packed.py", old="    packed = torch.zeros(packed_tensor_shape, device=intweights.device, dtype=torch.uint8)",
         new="    packed = torch.zeros(packed_tensor_shape, device=intweights.device, dtype=torch.uint8).contiguous()", props=["C04", "C09"],
         note="no-op change in the packer"),
    dict(id="K8", file=Q + "tensor/optimizers/max_optimizer.py", old="        scale = (rmax - rmin) / (qmax - qmin)", new="        scale = (rmax - rmin) / float(qmax - qmin)",
         props=["C02", "C03"], note="float literal divisor"),
    dict(id="K9", file=Q + "quantize.py", old="        if modules is not None and m not in modules:", new="        if modules is not None and not any(m is x for x in modules):",
         props=["C08"], note="identity-based filter"),
    dict(id="K10", file=Q + "tensor/qbits/awq/packed.py", old="    packed = packed.permute(0, 1, 2, 4, 3)\n    packed = packed.reshape(N, K)",
         new="    packed = packed.permute(0, 1, 2, 4, 3).contiguous()\n    packed = packed.reshape(N, K)", props=["C15"], note="explicit contiguous in pack_v2"),
]
