#!/usr/bin/env python3
"""Renders the prompt given to an independent sub-agent that seeds a property-breaking change.
usage: make_seed_prompt.py <Cnn> <worktree> <outdir> [--different-from <seeded id>]  (prints the prompt)
The agent gets ONLY the property text, its scratch worktree and environment notes - nothing from /verif's checks."""
import json, os, sys
here = os.path.dirname(os.path.abspath(__file__))
pid, wt, out = sys.argv[1:4]
prop = next(json.loads(l) for l in open(os.path.join(here, "..", "properties.jsonl")) if json.loads(l)["id"] == pid)
text = f"{prop['id']} — {prop['title']}\n\nStatement: {prop['statement']}\n\nQuantified over: {prop['quantifier']['text']}\n"
t = open(os.path.join(here, "SEED_PROMPT.tmpl")).read().replace("__WT__", wt).replace("__OUT__", out).replace("__PROP__", text)
if "--different-from" in sys.argv:
    ids = sys.argv[sys.argv.index("--different-from") + 1].split(",")
    t += ("\n\nA DIFFERENT CHANGE IS WANTED: earlier exercises already produced the changes below for the same property, so do NOT "
          "repeat them or close variants; pick another mechanism, preferably in another function or file:\n")
    for i in ids:
        prev = json.load(open(os.path.join(here, "..", "seeded", i, "meta.json")))
        t += f"  earlier change: {prev['summary']}\n    it needed: {prev.get('what_it_needs_to_manifest')}\n"
t += ("\nEnvironment note: on this CPU-only torch build two torch kernels are themselves broken (platform bugs, unrelated to your "
      "task): torch._weight_int8pack_mm segfaults for bfloat16 float activations x qint8 weights (avoid bfloat16 models with qint8 "
      "weights and non-quantized activations), and torch._int_mm returns garbage when in_features == 1. Avoid those combinations "
      "in your demo and do not base your change on them. Run the full pytest suite at most twice.\n")
print(t)
