"""Property-breaking single-site changes used to self-test the monitors (never applied to /repo).

Each entry: id, file (relative to the repo), old, new, the properties whose quick check must exit 1.
"""

Q = "optimum/quanto/"

MUTANTS = [
    # ---- C01
    dict(id="M01", file=Q + "tensor/quantizers/symmetric.py", old="data = torch.round(data)", new="data = torch.floor(data)",
         props=["C01"], note="floor instead of round"),
    dict(id="M02", file=Q + "tensor/quantizers/symmetric.py", old="min=info.min, max=info.max", new="min=info.min + 1, max=info.max",
         props=["C01"], note="clamp off by one (symmetric -127)"),
    dict(id="M03", file=Q + "tensor/quantizers/symmetric.py",
         old="data = torch.clamp(data, min=info.min, max=info.max).to(qtype.dtype)",
         new="data = (data if not qtype.is_floating_point else torch.clamp(data, min=info.min, max=info.max)).to(qtype.dtype)",
         props=["C01"], note="no clamp for integers: wraps"),
    dict(id="M04", file=Q + "tensor/qbytes.py", old="            dqt = t._scale * t._data\n",
         new="            dqt = t._scale * t._data.abs()\n", props=["C01"], note="dequantize drops the sign"),
    # ---- C02
    dict(id="M06", file=Q + "tensor/quantizers/affine.py", old="torch.clamp(torch.round(base / scale) + zeropoint",
         new="torch.clamp(torch.floor(base / scale) + zeropoint", props=["C02"], note="floor in affine quantizer"),
    dict(id="M07", file=Q + "tensor/qbits/group.py", old="    ungrouped = ungrouped.permute(2, 0, 1)\n",
         new="    ungrouped = (ungrouped.flip(2) if axis_groups == 2 else ungrouped).permute(2, 0, 1)\n", props=["C02"],
         note="ungroup swaps the two groups when there are exactly two groups per axis index (axis -1)"),
    dict(id="M08", file=Q + "tensor/optimizers/max_optimizer.py", old="scale = (rmax - rmin) / (qmax - qmin)",
         new="scale = (rmax - rmin) / (qmax - qmin + 1)", props=["C02", "C03"], note="scale one level too small"),
    dict(id="M15", file=Q + "tensor/optimizers/max_optimizer.py",
         old="rmin = torch.clamp(torch.amin(base, dim=dim, keepdim=True), max=0)",
         new="rmin = torch.amin(base, dim=dim, keepdim=True)", props=["C02", "C16"], note="revert of the zero-hull fix (min side)"),
    # ---- C03
    dict(id="M09", file=Q + "tensor/optimizers/absmax_optimizer.py",
         old="dim = list(range(1, base.ndim)) if (axis == 0) else list(range(0, base.ndim - 1))",
         new="dim = list(range(1, base.ndim)) if (axis == 0 or base.shape[0] == base.shape[-1]) else list(range(0, base.ndim - 1))",
         props=["C03"], note="axis -1 handled like axis 0 on square tensors"),
    dict(id="M10", file=Q + "calibrate.py", old="        qranges = torch.amax(base, dim=dim, keepdim=True)\n",
         new="        qranges = torch.amax(base, dim=dim, keepdim=True) * 0.5\n", props=["C03"],
         note="per-axis absmax_scale saturates"),
    # ---- C04
    dict(id="M11", file=Q + "tensor/qbits/packed.py", old="it = min(values_per_item, (original_shape[0] // row_dim) + 1)",
         new="it = min(values_per_item, max(1, original_shape[0] // row_dim))", props=["C04"],
         note="drops the tail rows for some residues"),
    dict(id="M12", file=Q + "library/ext/cpp/unpack.cpp", old="(t & 0x30).__rshift__(4)", new="(t & 0x30).__rshift__(3)",
         props=["C04"], note="wrong shift in the C++ kernel (needs the sanitized rebuild from the mutated tree)"),
    dict(id="M13", file=Q + "library/ops.py", old="        if _ext_enabled:\n", new="        if _ext_enabled or name == 'unpack':\n",
         props=["C04"], note="router ignores disable_extensions for unpack"),
    dict(id="M14", file=Q + "tensor/qbits/packed.py",
         old="args, kwargs = pytree.tree_map_only(PackedTensor, lambda x: x.unpack(), (args, kwargs or {}))",
         new="args, kwargs = pytree.tree_map_only(PackedTensor, lambda x: x.unpack() if op.overloadpacket is not torch.ops.aten.sum else x._data, (args, kwargs or {}))",
         props=["C04"], note="sum on a packed tensor acts on the payload"),
    dict(id="M16", file=Q + "library/python/unpack.py", old="        unpacked.append(rshift(packed & mask, bits * i))",
         new="        unpacked.append(rshift(packed & mask, bits * i) if (i < 3) else rshift(packed, bits * i) & 1)",
         props=["C04"], note="python kernel wrong for the 4th 2-bit field"),
    # ---- C16
    dict(id="M17", file=Q + "tensor/optimizers/absmax_optimizer.py",
         old="return torch.clamp(rmax / qmax, min=finfo.smallest_normal * finfo.eps)", new="return rmax / qmax",
         props=["C16"], note="revert of the scale floor (weights)"),
    dict(id="M18", file=Q + "calibrate.py",
         old="return torch.clamp(qranges / info.max, min=finfo.smallest_normal * finfo.eps)", new="return qranges / info.max",
         props=["C16"], note="revert of the scale floor (activations)"),
]
