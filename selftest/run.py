#!/usr/bin/env python3
"""Apply each mutant to a scratch copy of the repo (outside /repo and /verif), run the owning checks against it
and expect exit 1 with a VIOLATION line. usage: selftest/run.py [--suite] [--tier quick] [ids or Cnn ...]"""
import json
import os
import shutil
import subprocess
import sys
import tempfile
import time

HERE = os.path.dirname(os.path.abspath(__file__))
V = os.path.dirname(HERE)
sys.path.insert(0, HERE)
from mutants import MUTANTS  # noqa
from controls import CONTROLS  # noqa


def main():
    args = sys.argv[1:]
    suite = "--suite" in args
    tier = "quick"
    if "--tier" in args:
        tier = args[args.index("--tier") + 1]
        args.remove("--tier")
        args.remove(tier)
    sel = [a for a in args if not a.startswith("--")]
    results = []
    controls = "--controls" in args
    for mu in (CONTROLS if controls else MUTANTS):
        if sel and mu["id"] not in sel and not any(p in sel for p in mu["props"]):
            continue
        d = tempfile.mkdtemp(prefix="qvmut_" + mu["id"] + "_", dir="/tmp")
        try:
            subprocess.run(["rsync", "-a", "--exclude", ".git", "--exclude", "build", "/repo/", d + "/"], check=True)
            p = os.path.join(d, mu["file"])
            s = open(p).read()
            if s.count(mu["old"]) != 1:
                results.append((mu["id"], "PATCH-DOES-NOT-APPLY", s.count(mu["old"])))
                print(results[-1])
                continue
            open(p, "w").write(s.replace(mu["old"], mu["new"]))
            suite_ok = None
            if suite:
                r = subprocess.run([sys.executable, os.path.join(V, "tools", "baseline.py"), d], stdout=subprocess.PIPE,
                                   text=True)
                suite_ok = r.returncode == 0
            for prop in mu["props"]:
                if sel and not (mu["id"] in sel or prop in sel):
                    continue
                env = dict(os.environ, QV_REPO=d, QV_OUT=os.path.join(d, ".qvout"), QV_CACHE=os.path.join(d, ".qvcache"))
                t0 = time.time()
                r = subprocess.run([os.path.join(V, "check"), prop, tier], stdout=subprocess.PIPE,
                                   stderr=subprocess.STDOUT, text=True, env=env)
                viol = [ln for ln in r.stdout.splitlines() if ln.startswith("VIOLATION")]
                sigs = [ln.strip() for ln in r.stdout.splitlines() if ln.strip().startswith("signature:")]
                if controls:
                    status = "CAUGHT" if (r.returncode == 0 and not viol) else f"MISSED(false alarm, exit={r.returncode})"
                else:
                    status = "CAUGHT" if (r.returncode == 1 and viol) else f"MISSED(exit={r.returncode})"
                results.append((mu["id"], prop, status, f"{time.time() - t0:.0f}s", "suite_ok=" + str(suite_ok),
                                mu["note"], sigs[:2]))
                print(results[-1], flush=True)
                if status != "CAUGHT":
                    print(r.stdout[-1500:])
        finally:
            shutil.rmtree(d, ignore_errors=True)
    missed = [r for r in results if "CAUGHT" not in str(r[2])]
    print(f"\n{len(results) - len(missed)}/{len(results)} caught")
    with open(os.path.join(HERE, "last_controls.json" if controls else "last_results.json"), "w") as f:
        json.dump(results, f, indent=1)
    return 1 if missed else 0


if __name__ == "__main__":
    sys.exit(main())
