#!/usr/bin/env python3
"""Re-run the repository's pinned test suite on every seeded change myself (not relying on what the sub-agent reported)
and record the outcome in seeded/<id>/meta.json under confirmed_by_me.test_suite_rerun.
usage: selftest/seed_suite.py [--jobs J] [--force] [ids...]"""
import concurrent.futures as cf
import json
import os
import shutil
import subprocess
import sys
import tempfile

HERE = os.path.dirname(os.path.abspath(__file__))
V = os.path.dirname(HERE)
SEEDED = os.path.join(V, "seeded")


def one(sid):
    sdir = os.path.join(SEEDED, sid)
    mp = os.path.join(sdir, "meta.json")
    meta = json.load(open(mp))
    d = tempfile.mkdtemp(prefix="qvseedsuite_" + sid + "_", dir="/tmp")
    try:
        if meta.get("base_commit"):
            subprocess.run(f"git -C /repo archive {meta['base_commit']} | tar -x -C {d}", shell=True, check=True)
        else:
            subprocess.run(["rsync", "-a", "--exclude", ".git", "--exclude", "build", "/repo/", d + "/"], check=True)
        patch = os.path.join(sdir, "patch.diff")
        r = subprocess.run(["git", "apply", "--whitespace=nowarn", patch], cwd=d, stdout=subprocess.PIPE,
                           stderr=subprocess.STDOUT, text=True)
        if r.returncode != 0:
            r = subprocess.run(["patch", "-p1", "--fuzz=3", "-i", patch], cwd=d, stdout=subprocess.PIPE,
                               stderr=subprocess.STDOUT, text=True)
        if r.returncode != 0:
            return sid, "PATCH-DOES-NOT-APPLY", ""
        q = subprocess.run([sys.executable, os.path.join(V, "tools", "baseline.py"), d], stdout=subprocess.PIPE, text=True)
        lines = q.stdout.strip().splitlines()
        res = dict(exit=q.returncode, summary=lines[0] if lines else "", compare=lines[1] if len(lines) > 1 else "",
                   missing=[ln.strip() for ln in lines[2:8]],
                   repo_head=subprocess.run(["git", "-C", "/repo", "rev-parse", "--short", "HEAD"], stdout=subprocess.PIPE,
                                            text=True).stdout.strip())
        meta = json.load(open(mp))
        cm = meta.get("confirmed_by_me") or {}
        cm["test_suite_rerun"] = res
        meta["confirmed_by_me"] = cm
        json.dump(meta, open(mp, "w"), indent=1)
        return sid, "OK" if q.returncode == 0 else "SUITE-DIFFERS", res["compare"]
    finally:
        shutil.rmtree(d, ignore_errors=True)


def main():
    args = sys.argv[1:]
    jobs = int(args[args.index("--jobs") + 1]) if "--jobs" in args else 3
    force = "--force" in args
    sel = [a for a in args if not a.startswith("--") and not a.isdigit()]
    ids = []
    for sid in sorted(os.listdir(SEEDED)):
        if not os.path.isdir(os.path.join(SEEDED, sid)) or (sel and sid not in sel):
            continue
        meta = json.load(open(os.path.join(SEEDED, sid, "meta.json")))
        if not force and (meta.get("confirmed_by_me") or {}).get("test_suite_rerun"):
            continue
        ids.append(sid)
    print(len(ids), "seeded changes to run", flush=True)
    with cf.ThreadPoolExecutor(jobs) as ex:
        for r in ex.map(one, ids):
            print(r, flush=True)


if __name__ == "__main__":
    main()
