#!/usr/bin/env python3
"""Run the checks against the independently seeded changes kept under /verif/seeded/<id>/.

For each seeded change: scratch copy of /repo's working tree (outside /repo and /verif), `git apply patch.diff`
(falls back to `patch -p1`), demo must exit 1 with the change (0 on the unchanged tree), and the owning check is
expected to exit 1 with a VIOLATION line.  usage: selftest/seeded.py [--tier quick|thorough] [--demo] [ids...]
"""
import json
import os
import shutil
import subprocess
import sys
import tempfile
import time

HERE = os.path.dirname(os.path.abspath(__file__))
V = os.path.dirname(HERE)
SEEDED = os.path.join(V, "seeded")


def run_demo(sdir, meta, repo):
    demo = os.path.join(sdir, meta.get("demo", "demo.py"))
    cmd = ["/venv/bin/python"] + meta.get("demo_pyflags", []) + [demo]
    env = dict(os.environ, QUANTO_PATH=repo, PYTHONPATH=repo)
    try:
        r = subprocess.run(cmd, env=env, stdout=subprocess.PIPE, stderr=subprocess.STDOUT, text=True, timeout=900)
        return r.returncode
    except subprocess.TimeoutExpired:
        return "timeout"


def main():
    args = sys.argv[1:]
    tier = "quick"
    if "--tier" in args:
        tier = args[args.index("--tier") + 1]
        args.remove("--tier")
        args.remove(tier)
    demo = "--demo" in args
    sel = [a for a in args if not a.startswith("--")]
    rows = []
    for sid in sorted(os.listdir(SEEDED)):
        sdir = os.path.join(SEEDED, sid)
        if not os.path.isdir(sdir) or (sel and sid not in sel):
            continue
        meta = json.load(open(os.path.join(sdir, "meta.json")))
        d = tempfile.mkdtemp(prefix="qvseed_" + sid + "_", dir="/tmp")
        try:
            base = "/repo"
            if meta.get("base_commit"):
                # the change only manifests on top of a defect that was repaired in /repo afterwards: replay it on that commit
                subprocess.run(f"git -C /repo archive {meta['base_commit']} | tar -x -C {d}", shell=True, check=True)
                base = tempfile.mkdtemp(prefix="qvseedbase_" + sid + "_", dir="/tmp")
                subprocess.run(f"git -C /repo archive {meta['base_commit']} | tar -x -C {base}", shell=True, check=True)
            else:
                subprocess.run(["rsync", "-a", "--exclude", ".git", "--exclude", "build", "/repo/", d + "/"], check=True)
            patch = os.path.join(sdir, "patch.diff")
            r = subprocess.run(["git", "apply", "--whitespace=nowarn", patch], cwd=d, stdout=subprocess.PIPE,
                               stderr=subprocess.STDOUT, text=True)
            if r.returncode != 0:
                r = subprocess.run(["patch", "-p1", "--fuzz=3", "-i", patch], cwd=d, stdout=subprocess.PIPE,
                                   stderr=subprocess.STDOUT, text=True)
            if r.returncode != 0:
                rows.append((sid, "PATCH-DOES-NOT-APPLY", r.stdout[-300:]))
                print(rows[-1], flush=True)
                continue
            demo_res = None
            if demo:
                demo_res = (run_demo(sdir, meta, d), run_demo(sdir, meta, base))
            props = meta.get("checks_expected", [meta["property"]])
            for prop in props:
                env = dict(os.environ, QV_REPO=d, QV_OUT=os.path.join(d, ".qvout"), QV_CACHE=os.path.join(d, ".qvcache"))
                t0 = time.time()
                r = subprocess.run([os.path.join(V, "check"), prop, tier], stdout=subprocess.PIPE,
                                   stderr=subprocess.STDOUT, text=True, env=env)
                viol = [ln for ln in r.stdout.splitlines() if ln.startswith("VIOLATION")]
                sigs = [ln.strip()[:220] for ln in r.stdout.splitlines() if ln.strip().startswith("signature:")]
                status = "CAUGHT" if (r.returncode == 1 and viol) else f"MISSED(exit={r.returncode})"
                need = meta.get("caught_requires_signature_regex")
                import re
                if status == "CAUGHT" and need and not any(re.search(need, ln) for ln in r.stdout.splitlines() if "signature:" in ln):
                    status = "MISSED(only the base commit's own defect was reported)"
                rows.append((sid, prop, tier, status, f"{time.time() - t0:.0f}s", "demo(with,without)=" + str(demo_res),
                             sigs[:2]))
                print(rows[-1], flush=True)
                if status != "CAUGHT":
                    print(r.stdout[-1200:])
        finally:
            shutil.rmtree(d, ignore_errors=True)
            if meta.get("base_commit"):
                shutil.rmtree(base, ignore_errors=True)
    with open(os.path.join(HERE, "last_seeded_results.json"), "w") as f:
        json.dump(rows, f, indent=1)
    missed = [r for r in rows if "CAUGHT" not in str(r[3:4])]
    print(f"\n{len(rows) - len(missed)}/{len(rows)} caught")


if __name__ == "__main__":
    main()
