#!/bin/bash
# Offline setup: nothing to install (monitors use the torch/numpy/safetensors already in /venv).
# The ASan/UBSan build of the C++ extension is made by ./check C04 itself (from /repo's working tree, cached by hash).
set -e
cd "$(dirname "$(readlink -f "$0")")"
/venv/bin/python -c "import torch, numpy, safetensors; print('torch', torch.__version__)"
mkdir -p evidence .cache
chmod +x check
echo setup ok
