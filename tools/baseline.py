#!/usr/bin/env python3
"""Run the repository's pinned baseline suite (hooks off: QUANTO_VERIF unset) and compare with BASELINE.json.
Exit 0 iff every stable_pass test still passes."""
import json, os, subprocess, sys, tempfile
import xml.etree.ElementTree as ET

repo = sys.argv[1] if len(sys.argv) > 1 else "/repo"
b = json.load(open("/root/.vp/BASELINE.json"))
fd, path = tempfile.mkstemp(suffix=".junit.xml"); os.close(fd)
env = {k: v for k, v in os.environ.items() if k not in ("QUANTO_VERIF", "PYTHONPATH")}
if repo != "/repo":
    env["PYTHONPATH"] = repo
cmd = f"cd {repo} && /venv/bin/python -m pytest -ra -q -p no:cacheprovider --timeout=900 --continue-on-collection-errors --junitxml={path}"
r = subprocess.run(cmd, shell=True, env=env, stdout=subprocess.PIPE, stderr=subprocess.STDOUT, text=True)
passed = set()
for tc in ET.parse(path).getroot().iter("testcase"):
    if not any(c.tag in ("failure", "error", "skipped") for c in tc):
        passed.add(f"{tc.get('classname')}::{tc.get('name')}")
os.unlink(path)
missing = sorted(set(b["stable_pass"]) - passed)
print(r.stdout.strip().splitlines()[-1])
print(f"stable_pass={len(b['stable_pass'])} passed_now={len(passed)} missing={len(missing)}")
for m in missing[:40]:
    print("  MISSING", m)
sys.exit(1 if missing else 0)
