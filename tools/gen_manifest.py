#!/usr/bin/env python3
"""Regenerates /verif/MANIFEST.json from the table below (python3 tools/gen_manifest.py)."""
import json
import os

V = os.path.dirname(os.path.dirname(os.path.abspath(__file__)))

CHECKS = {
    "C01": dict(
        technique="runtime monitor: per-element nearest-grid-point oracle (float64 reference) on the real "
                  "quantize_activation / SymmetricQuantizer calls over the complete float16/bfloat16 value space",
        level="exploration", ref="4/C01",
        text="Every finite float16 and bfloat16 value (complete enumeration) and boundary-directed/random float32 values "
             "are pushed through the real quantizers for sampled scales/axes/layouts; an independent float64 oracle "
             "judges code membership, dequantize = scale*code, per-element optimality and idempotence. Held means: no "
             "violation on the observed executions; scales and shapes are sampled, values are exhaustive for 16-bit dtypes.",
        note="Trusted: torch widening casts and float64 arithmetic; tolerance = 4 x (ulp(x)+ulp(dq)+s*ulp(x/s)) derived "
             "from the specified computation. Elements whose neighbouring grid points overflow the dtype belong to C16."),
    "C02": dict(
        technique="runtime monitor: per-element half-step oracle with an independent group-membership model on "
                  "quantize_weight(qint2/qint4) over group-wise assembled degenerate value classes",
        level="exploration", ref="4/C02",
        text="Tensors assembled group by group from degenerate value classes are quantized with the real "
             "quantize_weight; the oracle recomputes group hulls with its own membership model and bounds each "
             "element's error by half the nominal step plus float rounding; idempotence is judged through dequantize().",
        note="Trusted: float64 arithmetic, independent group model (row-major runs). 1-D tensors without group size: "
             "grouping read from the number of scales."),
    "C03": dict(
        technique="runtime monitor: range oracle (non-saturation / full range / dtype / count) on optimizer and "
                  "quantize_weight results plus metamorphic locality checks (rescale / replace / permute other rows)",
        level="exploration", ref="4/C03",
        text="The real optimizers, absmax_scale and quantize_weight are called on tensors whose rows/groups span many "
             "decades; an independent float64 oracle checks non-saturation, full-range use, dtype and count of the scales, "
             "and 3-6 metamorphic siblings per tensor check byte-identical results for the untouched row/group.",
        note="Trusted: float64 arithmetic; group order assumption for grouped scales (axis-index major); 2-ulp scale "
             "rounding tolerance. Known finding C03-F2 (float8 weight scales) is matched by mechanism."),
    "C16": dict(
        technique="runtime monitor: finiteness + C01/C02 error oracles on degenerate-directed weights, API-boundary "
                  "monitor on quantize_activation during calibrate-then-infer histories, zero-weight layer oracle",
        level="exploration", ref="4/C16",
        text="Weights assembled from degenerate classes (zeros, constant, offset, subnormal, near dtype max, ...) go "
             "through the real quantize_weight; calibration sequences with zero/constant/tiny/huge batches are followed "
             "by inference with a monitor on every activation quantization; zero-weight Linear/Conv2d must output the bias.",
        note="Float reference must itself be finite (batches are scaled down until it is). Known findings C16-F27/F27b "
             "(values within a rounding of the dtype maximum) are matched by a mechanism computed from the witness."),
}

PLANNED = {}

ALL = ["C%02d" % i for i in range(1, 17)]


def main():
    checks = []
    for pid in ALL:
        c = CHECKS.get(pid)
        if not c:
            continue
        checks.append({
            "property_id": pid,
            "quick_cmd": f"./check {pid} quick",
            "thorough_cmd": f"./check {pid} thorough",
            "evidence_file": f"evidence/{pid}.json",
            "replay_cmd_template": f"./check {pid} --replay {{path}}",
            "engine": "qv",
            "level_claimed": {"category": c["level"], "text": c["text"], "design_ref": "DESIGN.md section " + c["ref"]},
            "level_note": c["note"],
            "technique": c["technique"],
        })
    na = [{"property_id": p, "reason": PLANNED.get(p, "check not built yet in this session (planned: runtime monitor, "
                                                   "see DESIGN.md section 4)")}
          for p in ALL if p not in CHECKS]
    m = {
        "version": 1,
        "setup_cmd": "./setup.sh",
        "hooks": {
            "guard": "QUANTO_VERIF",
            "enable": "No instrumentation is committed into /repo: monitors are attached from /verif at run time "
                      "(class-level wrappers on the tensor subclasses' dispatch entry points, API-boundary wrappers, "
                      "sys.monitoring reach counters/failpoints). ./check exports QUANTO_VERIF=1 for its workers; "
                      "nothing in /repo reads it.",
            "baseline_off_cmd": "cd /repo && /venv/bin/python -m pytest -ra -q -p no:cacheprovider --timeout=900 "
                                "--continue-on-collection-errors",
            "source_commits": [],
            "add_only": True,
        },
        "engines": [{"name": "qv", "path": "qv/", "serves_properties": [c["property_id"] for c in checks],
                     "kind_free_text": "runtime monitoring framework: worker subprocesses with intent logs (crash "
                                       "containment), reference-model oracles, dispatch-boundary shadow execution, "
                                       "history checkers, sys.monitoring reach/failpoints, ASan/UBSan build of the C++ "
                                       "extension"}],
        "checks": checks,
        "not_applicable": na,
        "notes": "Exit codes: 0 held, 1 violated (VIOLATION line), 2 inconclusive (INCONCLUSIVE line; a monitor or public "
                 "entry point was not reached, or the harness itself failed). Known findings: known_findings.json. "
                 "fix: commits in /repo are listed in known_findings.json under 'fixed'.",
    }
    with open(os.path.join(V, "MANIFEST.json"), "w") as f:
        json.dump(m, f, indent=1)
    print("claimed:", [c["property_id"] for c in checks], "n/a:", [x["property_id"] for x in na])


if __name__ == "__main__":
    main()
