#!/usr/bin/env python3
"""Regenerates /verif/MANIFEST.json from the table below (python3 tools/gen_manifest.py)."""
import json
import os

V = os.path.dirname(os.path.dirname(os.path.abspath(__file__)))

CHECKS = {
    "C01": dict(
        technique="runtime monitor: per-element nearest-grid-point oracle (float64 reference) on the real "
                  "quantize_activation / SymmetricQuantizer calls over the complete float16/bfloat16 value space",
        level="exploration", ref="4/C01",
        text="Every finite float16 and bfloat16 value (complete enumeration) and boundary-directed/random float32 values "
             "are pushed through the real quantizers for sampled scales/axes/layouts (contiguous, transposed, sliced, stride-0 "
             "expanded and overlapping sliding-window views); an independent float64 oracle "
             "judges code membership, dequantize = scale*code, per-element optimality and idempotence. Held means: no "
             "violation on the observed executions; scales and shapes are sampled, values are exhaustive for 16-bit dtypes.",
        note="Trusted: torch widening casts and float64 arithmetic; tolerance = 4 x (ulp(x)+ulp(dq)+s*ulp(x/s)) derived "
             "from the specified computation. Elements whose neighbouring grid points overflow the dtype belong to C16."),
    "C02": dict(
        technique="runtime monitor: per-element half-step oracle with an independent group-membership model on "
                  "quantize_weight(qint2/qint4) over group-wise assembled degenerate value classes",
        level="exploration", ref="4/C02",
        text="Tensors assembled group by group from degenerate value classes are quantized with the real "
             "quantize_weight; the oracle recomputes group hulls with its own membership model and bounds each "
             "element's error by half the nominal step plus float rounding; idempotence is judged through dequantize(). "
             "Sources are contiguous or transposed / sliced / expanded / sliding-window views, up to 1030 rows or columns.",
        note="Trusted: float64 arithmetic, independent group model (row-major runs). 1-D tensors without group size: "
             "grouping read from the number of scales."),
    "C03": dict(
        technique="runtime monitor: range oracle (non-saturation / full range / dtype / count) on optimizer and "
                  "quantize_weight results plus metamorphic locality checks (rescale / replace / permute other rows)",
        level="exploration", ref="4/C03",
        text="The real optimizers, absmax_scale and quantize_weight are called on tensors whose rows/groups span many "
             "decades (contiguous, transposed-storage, channels_last and windowed sources); an independent float64 oracle checks non-saturation, full-range use, dtype and count of the scales, "
             "and 3-6 metamorphic siblings per tensor check byte-identical results for the untouched row/group.",
        note="Trusted: float64 arithmetic; group order assumption for grouped scales (axis-index major); 2-ulp scale "
             "rounding tolerance. Known finding C03-F2 (float8 weight scales) is matched by mechanism."),
    "C16": dict(
        technique="runtime monitor: finiteness + C01/C02 error oracles on degenerate-directed weights, API-boundary "
                  "monitor on quantize_activation during calibrate-then-infer histories, zero-weight layer oracle",
        level="exploration", ref="4/C16",
        text="Weights assembled from degenerate classes (zeros, constant, offset, subnormal, near dtype max, ...) go "
             "through the real quantize_weight; calibration sequences with zero/constant/tiny/huge batches are followed "
             "by inference with a monitor on every activation quantization; zero-weight Linear/Conv2d must output the bias.",
        note="Float reference must itself be finite (batches are scaled down until it is). Known findings C16-F27/F27b "
             "(values within a rounding of the dtype maximum) are matched by a mechanism computed from the witness."),
    "C04": dict(
        technique="sanitizer + differential runtime monitor: ASan/UBSan build of the C++ unpack kernel (from the working "
                  "tree) driven through the repo's own glue, compared with the Python kernel, the router in three modes "
                  "and a numpy reference over all 256 byte values and every leading-dimension residue",
        level="exploration", ref="4/C04",
        text="pack/unpack round trips for every leading dimension 1..64 (1..257 thorough), all 256 byte values through "
             "every route of torch.ops.quanto.unpack (python, sanitized C++, extensions on/off, failing extension), "
             "packed-tensor operations against the unpacked reference (a fixed list plus random draws from a pool of 75 "
             "programs with every dimension argument over -ndim..ndim-1, and in-place programs whose results fit the "
             "packed width); ASan/UBSan log must hold no report.",
        note="Byte and residue spaces are enumerated completely; shapes/layouts are sampled. A clean sanitizer log is 'no "
             "report on the observed calls'. CUDA/MPS kernels cannot run here."),
    "C05": dict(
        technique="runtime monitor at the dispatch boundary: shadow execution of every monitored torch function on "
                  "dequantized operands (class-level wrapper on QTensor.__torch_function__), judged per class of operation",
        level="exploration", ref="3.1, 4/C05",
        text="Random and directed op programs (depth 1..8) over mixed quantized/plain operands run on the real tensor "
             "subclasses; each monitored call is shadow-executed on the dequantized operands and compared byte-wise "
             "(moves), within ulps (rescale/pass-through), within one output step (re-quantization) or within the dot-"
             "product bound (contractions); in-place steps (mul_/add_/.../`x += y`/inplace=True/indexed assignment) are judged "
             "on the destination afterwards; every live tensor of the program must keep its bits unless the float program "
             "aliases it; raising where the float program is valid is a violation except the documented refusals.",
        note="Per-step judgement from the actual operands of each step (errors do not compound). Known findings C05-F5b, "
             "F5c, F13, ALIAS, INPLACE, SLICE are matched by mechanism labels. The int8pack crash class of C07 is steered "
             "around. CUDA paths not executed. Anchors (reach counters) include QTensorLinear.forward, mm, bmm, where, copy_."),
    "C06": dict(
        technique="runtime invariant at hooks: metadata invariant evaluated on every quantized tensor returned at "
                  "QTensor.__torch_function__ and both __torch_dispatch__ entry points, and on API results of histories",
        level="exploration", ref="3.1, 4/C06",
        text="Histories (initial tensor x up to 10 ops/moves/copies/state_dict round trips/freezes) run with the invariant "
             "armed at both dispatch levels: shape/dtype/device equal those of dequantize(), one code per element, dense "
             "packed payload, scale/zero-point layout for the declared axis, storage dtype = qtype's; moves/copies keep "
             "codes and (cast) scales byte-identical. A directed section multiplies and divides per-tensor and per-axis "
             "tensors of ranks 1-3 by every kind of scalar operand (numbers, 0-dim and one-element tensors).",
        note="Inner tensors are read through __tensor_flatten__. Grouped low-bit scale layout is checked on counts only."),
    "C07": dict(
        technique="runtime monitor with reference-model oracle: exact-arithmetic operand sets (bit-exact against the "
                  "float64 product) and dot-product error bounds on linear/mm/bmm/quanto::qbytes_mm and each route "
                  "function, in worker subprocesses with intent logs (native crash containment)",
        level="exploration", ref="4/C07",
        text="Operand sets over both sides of every size threshold, with contiguous, transposed, sliced and stride-0 expanded "
             "activations, are pushed through F.linear, mm/matmul/bmm, the custom "
             "operator and every CPU route function directly; 'exact' sets (small integer codes, power-of-two scales, "
             "dyadic bias) must be bit-identical to the float64 product, 'realistic' sets (row scales over decades, "
             "saturating codes) within the accumulation bound; output dtype/shape/finiteness are checked; part of the "
             "weights are then overwritten in place by another weight and the next product is judged against what the "
             "weight holds now.",
        note="Workers write the case to an intent log before running it; a worker killed by a signal is a violation "
             "witness (known finding C07-F33 is the platform's int8pack kernel, probed in sacrificial cases; the former "
             "finding C07-F34, torch._int_mm on operands with ambiguous strides, was repaired in /repo). CUDA/MPS routes "
             "are not executed."),
    "C08": dict(
        technique="runtime monitor: structural diff of the module tree around the real quantize() + module-boundary twin "
                  "oracle (float64 reference of the original class on the dequantized weight and the quantized input "
                  "observed at the quantize_activation boundary)",
        level="exploration", ref="4/C08",
        text="Random module trees (nested containers, shared instances, eligible and non-eligible leaves, Conv2d/LayerNorm "
             "hyper-parameter space, filters) are quantized with the real quantize(); names, replacement iff eligible and "
             "selected, parameter bytes, hyper-parameters, dtype/device are checked; every quantized module is then run "
             "alone on float and quantized inputs and compared with its float64 twin within the dot-product bound "
             "(+ one output step when activations are quantized).",
        note="Module-level forwards (each quantized module alone) rather than whole-model forwards; activation scales "
             "from one calibration batch with streamline=False. Known crash classes of C07 are steered around."),
    "C09": dict(
        technique="offline checker over recorded lifecycle histories: bit fingerprints of outputs, parameters, scales and "
                  "inner tensors after every step of random forward/calibrate/freeze/move/copy interleavings",
        level="exploration", ref="4/C09",
        text="Runnable models (9 architectures, degenerate weight rows included) go through random lifecycle histories "
             "(forward, calibrate, freeze, freeze again, to('cpu') / cpu() / to(torch.device) / non_blocking moves, deepcopy, "
             "copy.copy, pickle and torch.save round trips of the module, _apply(clone), reloading its own state_dict) on "
             "the real API; the recorder stores byte fingerprints after every step and the checker allows changes only "
             "across calibrate steps, requires freeze idempotence, untouched biases/scales/other modules, and after freeze "
             "the requested qtype with a dense payload and one scale (zero-point) per output index or group.",
        note="One device only: moves are cpu->cpu (so device-move code that only runs between different devices is not "
             "executed). pickle of float8 payloads is replaced by torch.save (plain float8 tensors do not survive "
             "pickle.loads in this torch build)."),
    "C10": dict(
        technique="offline checker over recorded save/load histories: value-by-value comparison of state dicts across three "
                  "serializers and bit fingerprints of weights, scales, qtypes and outputs across three kinds of target",
        level="exploration", ref="4/C10",
        text="Quantized models (all weight qtypes, grouped low-bit, activations, three dtypes, frozen or not, calibrated "
             "with or without streamlining) are saved with pickle / weights_only / safetensors, loaded into same-quantized, "
             "default-quantized and requantize() targets for 1-3 cycles; every state_dict value must be a plain tensor or "
             "string, every serializer must return an equal dict, and the reloaded model must be bit-identical in codes, "
             "scales, zero-points, qtypes, activation scales, outputs and second state_dict; a load must leave the given "
             "dict unchanged and a second load of the same dict must give the same model.",
        note="Known findings C10-F17 (LayerNorm with activations through requantize/default target) and C10-F18 (group "
             "size lost for unfrozen int2/int4 on those targets) are matched by mechanism."),
    "C15": dict(
        technique="runtime monitor under python -O (CUDA asserts compiled out, same index arithmetic on CPU tensors): "
                  "position-permutation recovery with tagged inputs, reference-packer identity, representation-equivalence "
                  "and conversion-back oracles",
        level="exploration", ref="4/C15",
        text="For every admissible shape in the bound the real AWQ v1 (with/without reorder) and v2 packers are run on "
             "position-tagged inputs that recover, for every output nibble, the input position it carries (must be a "
             "bijection, unpack its inverse, independent of values and of earlier packings in the process); v2 payloads "
             "must equal external/awq pack_intweight bit for bit; float16 group-128 int4 weights must dequantize alike in "
             "both representations and convert back (qbits_tensor / save_to_state_dict) to identical codes, scales and "
             "zero-points. Code matrices are contiguous, transposed-storage, windowed or strided views and are held "
             "in five integer dtypes; wrappers rebuilt by detach() and nn.Parameter() must unpack to the same values.",
        note="Assumes reshape/permute/shift/or behave the same on CPU and CUDA. The selection of the AWQ class and the "
             "device-move glue need a CUDA device and are not executed; CUDA gemm kernels are out of reach."),
    "C12": dict(
        technique="offline checker over recorded calibration histories: recorder at each quantized module's own boundary "
                  "(instance hooks + qforward spy), float64 replay of the EMA recurrence, saturation probe after "
                  "single-batch calibration",
        level="exploration", ref="4/C12",
        text="Batch sequences with magnitudes over six decades run through the real Calibration context (1-3 successive "
             "contexts from new objects or one reused object, several momenta, streamlining on/off) on Linear/Conv2d/LayerNorm models alone and chained; per "
             "module and per batch the recorder logs the input absmax (or the adopted scale of a quantized input), the raw "
             "output absmax and the scales after the batch; the checker replays first-batch initialisation and "
             "s = m*s + (1-m)*absmax/qmax in float64 and compares within a dtype-derived tolerance.",
        note="Scales are read at the module boundary at the time of the batch (streamlining may switch a module's "
             "activations off later). Known finding C12-F22 (a scale equal to 1.0 restarts the average) is matched by the "
             "arithmetic relation computed by the checker."),
    "C13": dict(
        technique="runtime monitor with fault injection: snapshots of torch's global module-hook registries, function-mode "
                  "stack and extension switch around every context; bit fingerprints around every inference and library "
                  "call; sys.monitoring failpoints enumerating every reached (function, k-th entry) pair",
        level="fault_enumeration", ref="3.2, 4/C13",
        text="Histories of sequential / nested / reused / re-entered Calibration contexts run on the real code, left "
             "normally, by an exception raised in a module's forward, or by a fault injected at the k-th entry of each repo "
             "function the fault-free run reaches (calibrate_input, calibrate_output, _updated_scale, absmax_scale, "
             "qforward, forward, __torch_function__, quantize_activation, quantize_weight); after the outermost exit the "
             "global registries and mode stack must equal the snapshot taken before; outside a context inference must not "
             "change any parameter, buffer, scale or qtype and must be repeatable bit for bit - also for 'glue' models "
             "whose forward applies functional and in-place tensor code (26 operations) to the quantized activations "
             "handed out by quantized modules, and for quantized model inputs; global torch state (grad mode, default "
             "dtype, mode stacks, RNG) is snapshotted around inference and library calls; library calls must not modify "
             "the float tensors they read. A third of the histories use debug=True contexts (stdout captured).",
        note="Fault points are function entries (PY_START), so faults between two statements of one function are not "
             "enumerated. Fault enumeration is complete for the (function, k) pairs of the listed functions in quick tier "
             "for k in {1, 2, last} and for k <= 6 and last in thorough tier."),
    "C11": dict(
        technique="runtime monitor with reference-model oracle: gradients observed after backward through the real "
                  "quantized modules compared with float64 autograd on the float twin (straight-through estimators), plus "
                  "staleness checks around in-place weight updates",
        level="exploration", ref="4/C11",
        text="Quantized Linear/Conv2d modules (all weight qtypes, activations on/off, three dtypes, frozen or not) are run "
             "forward and backward with random, one-hot, non-contiguous, stride-0 and zero upstream gradients on inputs of "
             "rank 1-4; x.grad, weight.grad and bias.grad must match float64 autograd on the twin built from the dequantized "
             "weight and the observed quantized input within the contraction bound; frozen weights and scales must have no "
             "gradient; after each in-place weight update the quantized weight of the next forward must be within one step "
             "of the new float weight; a training history keeps one optimizer created after quantize(), applies checkpoint "
             "reloads / moves / mode switches between steps, and a held step must move the module weight by -lr x the "
             "gradient just checked; backward must leave the upstream gradient, the input and the parameters unchanged; "
             "inputs of 256-3000 rows exercise long weight-gradient sums. Every case also checks the tensor-level straight-through identity: float leaf -> "
             "quantize_weight / quantize_activation -> dequantize -> backward(G) must leave exactly G (mapped through the "
             "views) in the leaf's gradient.",
        note="The upstream gradient is applied to out.dequantize() when activations are quantized. Gradient tolerances "
             "observed on the unchanged tree stay below 0.11 of the bound."),
    "C14": dict(
        technique="runtime monitor over an exhaustively enumerated configuration space: accept-or-ValueError classifier on "
                  "the real entry points, accepted results re-judged with the C01/C02/C03/C06 oracles for exactly the "
                  "requested configuration, module construction and forward for every in_features",
        level="exploration", ref="4/C14",
        text="The full cross product qtype x axis {None,-2..2} x group size x optimizer family x 13 small shapes (rank 1-4) "
             "for quantize_weight, qtype x axis x seven scale layouts for SymmetricQuantizer / quantize_activation, qtype x "
             "axis x group size for AffineQuantizer, every in_features 1..2048 (1..8192 thorough) for QLinear and a Conv2d "
             "kernel/channel/group grid are executed; every outcome must be ValueError or a tensor honouring the request; "
             "listed unsupported configurations must raise and plainly valid ones must be accepted; automatic group sizes "
             "must divide the per-output element count and the module must run and match its float twin.",
        note="The symmetric quantizer is in scope for 8-bit qtypes only (the statement says so; the repository's tests use "
             "it with qint2/qint4). Axis aliases (ndim-1, -ndim) may be honoured or rejected."),
}

PLANNED = {}

ALL = ["C%02d" % i for i in range(1, 17)]


def main():
    checks = []
    for pid in ALL:
        c = CHECKS.get(pid)
        if not c:
            continue
        checks.append({
            "property_id": pid,
            "quick_cmd": f"./check {pid} quick",
            "thorough_cmd": f"./check {pid} thorough",
            "evidence_file": f"evidence/{pid}.json",
            "replay_cmd_template": f"./check {pid} --replay {{path}}",
            "engine": "qv",
            "level_claimed": {"category": c["level"], "text": c["text"], "design_ref": "DESIGN.md section " + c["ref"]},
            "level_note": c["note"],
            "technique": c["technique"],
        })
    na = [{"property_id": p, "reason": PLANNED.get(p, "check not built yet in this session (planned: runtime monitor, "
                                                   "see DESIGN.md section 4)")}
          for p in ALL if p not in CHECKS]
    m = {
        "version": 1,
        "setup_cmd": "./setup.sh",
        "hooks": {
            "guard": "QUANTO_VERIF",
            "enable": "No instrumentation is committed into /repo: monitors are attached from /verif at run time "
                      "(class-level wrappers on the tensor subclasses' dispatch entry points, API-boundary wrappers, "
                      "sys.monitoring reach counters/failpoints). ./check exports QUANTO_VERIF=1 for its workers; "
                      "nothing in /repo reads it.",
            "baseline_off_cmd": "cd /repo && /venv/bin/python -m pytest -ra -q -p no:cacheprovider --timeout=900 "
                                "--continue-on-collection-errors",
            "source_commits": [],
            "add_only": True,
        },
        "engines": [{"name": "qv", "path": "qv/", "serves_properties": [c["property_id"] for c in checks],
                     "kind_free_text": "runtime monitoring framework: worker subprocesses with intent logs (crash "
                                       "containment), reference-model oracles, dispatch-boundary shadow execution, "
                                       "history checkers, sys.monitoring reach/failpoints, ASan/UBSan build of the C++ "
                                       "extension"}],
        "checks": checks,
        "not_applicable": na,
        "notes": "Exit codes: 0 held, 1 violated (VIOLATION line), 2 inconclusive (INCONCLUSIVE line; a monitor or public "
                 "entry point was not reached, or the harness itself failed). Known findings: known_findings.json. "
                 "fix: commits in /repo are listed in known_findings.json under 'fixed'.",
    }
    with open(os.path.join(V, "MANIFEST.json"), "w") as f:
        json.dump(m, f, indent=1)
    print("claimed:", [c["property_id"] for c in checks], "n/a:", [x["property_id"] for x in na])


if __name__ == "__main__":
    main()
